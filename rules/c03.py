"""C03 - compiled evaluation implements the core semantics: agreement clauses.

a. AST walkers agree on the shape of the AST (every walker that dispatches on an AST node
   type visits all of that type's sub-AST fields)
b. stack-effect agreement between the VM case, the opcode table row and the code generator
c. inline operand width agreement between emitters and the VM case
"""
import tables
import callgraph
from cfg import PathExplorer
from report import Finding
from extract import AnalysisBroken

# sub-AST fields per AST node type (union member of struct sexp_struct).  Read off sexp.h and
# eval.c's constructors: these are the fields that hold further AST nodes.
SUB_AST = {
    "lambda": ["body"],
    "cnd": ["test", "pass", "fail"],
    "set": ["var", "value"],
    "seq": ["ls"],
}
AST_MEMBERS = {"lambda", "cnd", "set", "seq", "ref", "lit"}

WALKERS = [
    # (root function, unit, role)
    ("sexp_free_vars", "eval.c", "free-variable analysis"),
    ("simplify", "simplify.c", "simplification pass"),
    ("usedp", "simplify.c", "use analysis for rest-parameter elision"),
    ("sexp_generate", "vm.c", "code generator"),
]
# (walker, member, field) a walker legitimately does not visit, with the reason
WALKER_EXCEPTIONS = {
    ("simplify", "set", "var"): "the target of set! is a reference cell, never an expression to rewrite",
}


def walker_closure(cg, root, unitname):
    seen = set()
    st = [root]
    while st:
        f = st.pop()
        if f in seen:
            continue
        seen.add(f)
        for i, nd in enumerate(f.nodes):
            if nd["k"] == "call" and nd.get("o"):
                t = cg.resolve(f.unit, nd["o"])
                if t is not None and t.unit.name == unitname and (t.static or t.name.startswith("generate")):
                    st.append(t)
    return seen


def run_a(prog, res, cg=None, prop="C03", only=None):
    stat = res.stat("%s.a" % prop, "AST walkers visit every sub-AST field of each node type they dispatch on", floor=8)
    cg = cg or callgraph.CallGraph(prog)
    for (w, unit, role) in WALKERS:
        if only and w not in only:
            continue
        fn = prog.func(w)
        if fn is None or fn.unit.name != unit:
            raise AnalysisBroken("anchor vanished: AST walker %s in %s" % (w, unit))
        reads = {}
        for f in walker_closure(cg, fn, unit):
            for i, nd in enumerate(f.nodes):
                if nd["k"] == "mem" and not nd.get("ar"):
                    root, path = f.mempath(i)
                    if len(path) == 3 and path[0] == "value" and path[1] in AST_MEMBERS:
                        reads.setdefault(path[1], {})[path[2]] = f.where(i)
        for member, subs in SUB_AST.items():
            if member not in reads:
                # a walker that does not dispatch on this node type at all: only the generator must
                if w == "sexp_generate":
                    res.add(Finding(prop, "%s.a.walker-misses-type" % prop, w, member, fn.where(),
                                    "%s (%s) never looks at %s nodes" % (w, role, member), unit=unit))
                continue
            stat.sites += 1
            for f_ in subs:
                stat.obligations += 1
                if f_ in reads[member]:
                    stat.discharged += 1
                    stat.sample({"walker": w, "node": member, "field": f_, "read_at": reads[member][f_]}, limit=6)
                elif (w, member, f_) in WALKER_EXCEPTIONS:
                    stat.discharged += 1
                else:
                    res.add(Finding(prop, "%s.a.walker-skips-field" % prop, w, "%s.%s" % (member, f_),
                                    list(reads[member].values())[0],
                                    "%s (%s) handles %s nodes but never visits %s.%s, which the other walkers treat as a "
                                    "sub-expression: the passes disagree on the shape of the AST"
                                    % (w, role, member, member, f_), unit=unit))
    return stat


def run_a_functions(prog, res, prop="C03", units=("eval.c", "vm.c", "simplify.c")):
    """per-function form of the walker rule: any function of the compiler units that touches one
    sub-AST field of a node type touches all of them (a helper that looks at the branches of an
    `if` but not at its test has a different idea of the AST than every other pass)"""
    stat = res.stat("%s.a.fn" % prop, "every compiler function that touches a sub-AST field of a node type touches all of them",
                    floor=10 if len(units) > 1 else 2)
    for fn in prog.all_funcs():
        if fn.unit.name not in units:
            continue
        reads = {}
        for i, nd in enumerate(fn.nodes):
            if nd["k"] == "mem" and not nd.get("ar"):
                root, path = fn.mempath(i)
                if len(path) == 3 and path[0] == "value" and path[1] in SUB_AST and path[2] in SUB_AST[path[1]]:
                    reads.setdefault(path[1], {})[path[2]] = fn.where(i)
        for m, fs in reads.items():
            stat.sites += 1
            for f_ in SUB_AST[m]:
                stat.obligations += 1
                if f_ in fs or (fn.name, m, f_) in WALKER_EXCEPTIONS:
                    stat.discharged += 1
                else:
                    res.add(Finding(prop, "%s.a.walker-skips-field" % prop, fn.name, "%s.%s" % (m, f_),
                                    list(fs.values())[0],
                                    "%s looks at %s of %s nodes but never at %s.%s, which every other pass treats as a "
                                    "sub-expression of the node" % (fn.name, ", ".join("%s.%s" % (m, x) for x in sorted(fs)), m, m, f_),
                                    unit=fn.unit.display))
            stat.sample({"function": fn.name, "node": m, "fields": sorted(fs)}, limit=4)
    return stat


# ------------------------------------------------------------------ b. stack effect

def top_delta(fn, e, topvar):
    """effect of CFG element e on the local `top`: int, None (no effect) or 'abs' (absolute assignment)"""
    nd = fn.nodes[e]
    k = nd["k"]
    if k == "un" and nd["o"] in ("pre++", "post++", "pre--", "post--"):
        x = fn.strip(nd["c"][0])
        if fn.nodes[x]["k"] == "ref" and fn.nodes[x].get("d") == topvar:
            return 1 if "++" in nd["o"] else -1
    if k == "bin" and nd["o"] in ("+=", "-=", "="):
        x = fn.strip(nd["c"][0])
        if fn.nodes[x]["k"] == "ref" and fn.nodes[x].get("d") == topvar:
            if nd["o"] in ("+=", "-="):
                v = fn.const_val(nd["c"][1])
                if v is None:
                    return "abs"
                return v if nd["o"] == "+=" else -v
            rhs = fn.strip(nd["c"][1])
            rn = fn.nodes[rhs]
            if rn["k"] == "bin" and rn["o"] in ("+", "-"):
                a, b = fn.strip(rn["c"][0]), fn.strip(rn["c"][1])
                if fn.nodes[a]["k"] == "ref" and fn.nodes[a].get("d") == topvar and fn.const_val(b) is not None:
                    return fn.const_val(b) if rn["o"] == "+" else -fn.const_val(b)
            return "abs"
    return None


def vm_stack_effects(prog):
    """opcode value -> set of outcomes of its VM case: ints (net change of top at `break`),
    'abs', 'jump:<label>', 'unknown'"""
    fn = prog.func("sexp_apply")
    if fn is None:
        raise AnalysisBroken("anchor vanished: sexp_apply")
    tv = [i for i, v in enumerate(fn.vars) if v["n"] == "top" and v["k"] == "l"]
    if not tv:
        raise AnalysisBroken("anchor vanished: local `top` of sexp_apply")
    topvar = tv[0]
    # assigning the VM's procedure registers = transferring control to another procedure
    regs = {i for i, v in enumerate(fn.vars) if v["n"] in ("self", "bc", "cp") and v["k"] in ("l", "p")}

    def transfers(e):
        nd = fn.nodes[e]
        if nd["k"] == "bin" and nd["o"] == "=":
            x = fn.strip(nd["c"][0])
            return fn.nodes[x]["k"] == "ref" and fn.nodes[x].get("d") in regs
        return False
    sw = None
    for b in fn.blocks.values():
        if b.term == "SwitchStmt":
            n = sum(1 for s in b.succs if s is not None and s >= 0 and fn.blocks[s].lk == "case")
            if sw is None or n > sw[1]:
                sw = (b, n)
    sw = sw[0]
    case_blocks = {}
    for s in sw.succs:
        if s is not None and s >= 0 and fn.blocks[s].lk == "case" and fn.blocks[s].clo is not None:
            sb = fn.blocks[s]
            for v in range(sb.clo, (sb.chi if sb.chi is not None else sb.clo) + 1):
                case_blocks[v] = s
    # the switch exit: most common successor of BreakStmt blocks
    cnt = {}
    for b in fn.blocks.values():
        if b.term == "BreakStmt" and b.succs:
            cnt[b.succs[0]] = cnt.get(b.succs[0], 0) + 1
    exit_block = max(cnt, key=cnt.get)
    label_of = {b.id: b.ln for b in fn.blocks.values() if b.lk == "label"}
    case_set = set(case_blocks.values())
    effects = {}
    for op, start in case_blocks.items():
        outcomes = set()
        seen = set()
        work = [(start, 0)]
        steps = 0
        while work and steps < 20000:
            steps += 1
            bid, d = work.pop()
            if (bid, d) in seen:
                continue
            seen.add((bid, d))
            b = fn.blocks[bid]
            cur = d
            for e in b.elems:
                if cur == "abs":
                    break
                if transfers(e):
                    cur = "abs"
                    break
                r = top_delta(fn, e, topvar)
                if r == "abs":
                    cur = "abs"
                elif r is not None:
                    cur += r
            if cur == "abs":
                outcomes.add("abs")
                continue
            if abs(cur) > 40:
                outcomes.add("unknown")
                continue
            if b.ln and b.ln.startswith("goto:"):
                lab = b.ln[5:]
                if lab != "call_error_handler":
                    outcomes.add("jump:" + lab)
                continue
            for s in b.succs:
                if s is None or s < 0:
                    continue
                if s == exit_block:
                    outcomes.add(cur)
                elif s == fn.exit:
                    outcomes.add("return")
                else:
                    work.append((s, cur))
        effects[op] = outcomes
    return effects, fn


VOID_WORD = tables.SEXP_VOID_WORD


def run_b(prog, res, prop="C03"):
    stat = res.stat("%s.b" % prop, "net change of `top` in the VM case == what the opcode row promises the code generator "
                    "(-(n) for void rows, 1-n otherwise; binary folding for arithmetic)", floor=40)
    effects, fn = vm_stack_effects(prog)
    orows, _g = tables.opcode_rows(prog)
    enum = dict((v, n) for n, v in tables.enum_values(prog, const_prefix="SEXP_OP_NOOP"))
    seen_codes = {}
    for r in orows:
        cls = r.get("_op_class_name")
        code = r.get("code")
        name = r.get("name")
        if not name or not isinstance(code, int) or cls in (None, "SEXP_OPC_FOREIGN", "SEXP_OPC_PARAMETER"):
            continue
        stat.sites += 1
        flags = r.get("flags", 0)
        if flags & 16:          # static-param opcodes take their operands inline, not from the stack
            continue
        n = r["num_args"]
        if cls in ("SEXP_OPC_ARITHMETIC", "SEXP_OPC_ARITHMETIC_CMP"):
            expected = -1
            how = "binary fold"
        else:
            if (flags & 1) and r.get("data") not in (0, None):
                n += 1
            void = (r.get("ret_type") == VOID_WORD)
            expected = -n if void else 1 - n
            how = "%d stack operands, %s" % (n, "void row (generator pushes the value)" if void else "one result")
        outs = effects.get(code)
        opname = enum.get(code, str(code))
        if outs is None:
            continue        # C01.a reports missing cases
        ints = {o for o in outs if isinstance(o, int)}
        others = outs - ints
        if not ints:
            # pure control transfer (apply1, call/cc, raise, yield ...): no fall-through effect to compare
            stat.sample({"row": name, "opcode": opname, "vm": sorted(map(str, outs)), "verdict": "control transfer - not compared"}, limit=2)
            continue
        stat.obligations += 1
        key = (code, expected)
        if ints == {expected}:
            stat.discharged += 1
            stat.sample({"row": name, "opcode": opname, "expected": expected, "vm_net_top": sorted(ints), "contract": how}, limit=5)
        else:
            res.add(Finding(prop, "%s.b.stack-effect" % prop, "sexp_apply", "%s via %s" % (opname, name),
                            "vm.c:%d" % fn.blocks[[b for b in fn.blocks if fn.blocks[b].lk == "case" and fn.blocks[b].clo == code][0]].line,
                            "table row %s promises the code generator a net stack change of %+d (%s), but the VM case %s "
                            "changes `top` by %s on its non-raising paths: every later instruction of the procedure sees a "
                            "shifted frame and max_depth under-counts" % (name, expected, how, opname, sorted(ints)),
                            unit="vm.c"))
    return stat


# ------------------------------------------------------------------ c. operand width

def vm_operand_words(prog):
    """opcode -> number of inline operand words its VM case reads (1 + highest index of a
    ((sexp*)ip)[k] style read before the case breaks)"""
    fn = prog.func("sexp_apply")
    ipv = [i for i, v in enumerate(fn.vars) if v["n"] == "ip" and v["k"] == "l"]
    if not ipv:
        raise AnalysisBroken("anchor vanished: local `ip` of sexp_apply")
    ipv = ipv[0]
    sw = None
    for b in fn.blocks.values():
        if b.term == "SwitchStmt":
            n = sum(1 for s in b.succs if s is not None and s >= 0 and fn.blocks[s].lk == "case")
            if sw is None or n > sw[1]:
                sw = (b, n)
    sw = sw[0]
    cnt = {}
    for b in fn.blocks.values():
        if b.term == "BreakStmt" and b.succs:
            cnt[b.succs[0]] = cnt.get(b.succs[0], 0) + 1
    exit_block = max(cnt, key=cnt.get)
    case_start = {}
    for s in sw.succs:
        if s is not None and s >= 0 and fn.blocks[s].lk == "case" and fn.blocks[s].clo is not None:
            case_start[fn.blocks[s].clo] = s
    case_blocks = set(case_start.values())
    words = {}
    for op, start in case_start.items():
        seen = set()
        st = [start]
        mx = 0
        while st:
            bid = st.pop()
            if bid in seen:
                continue
            seen.add(bid)
            b = fn.blocks[bid]
            for e in b.elems:
                nd = fn.nodes[e]
                if nd["k"] == "idx":
                    base = fn.strip(nd["c"][0])
                    if fn.nodes[base]["k"] == "ref" and fn.nodes[base].get("d") == ipv:
                        k = fn.const_val(nd["c"][1])
                        if k is not None and (fn.type(nd["c"][0]) or "") != "unsigned char *":
                            mx = max(mx, k + 1)
            if b.ln and b.ln.startswith("goto:"):
                continue
            for s in b.succs:
                if s is None or s < 0 or s == exit_block or s == fn.exit:
                    continue
                if s in case_blocks and s != start:
                    continue        # fallthrough into another opcode's case: its operands are its own
                st.append(s)
        words[op] = mx
    return words


EMIT = "sexp_emit"
EMIT_WORD = "sexp_emit_word"
WORDS = ("sexp_emit_word", "sexp_context_make_label")     # a label reserves one operand word
EMIT_PUSH = "sexp_emit_push"


def run_c(prog, res, prop="C03"):
    stat = res.stat("%s.c" % prop, "number of operand words emitted after a constant opcode == words the VM case reads",
                    floor=15)
    words = vm_operand_words(prog)
    enum = dict((v, n) for n, v in tables.enum_values(prog, const_prefix="SEXP_OP_NOOP"))
    for fn in prog.all_funcs():
        if fn.unit.name not in ("vm.c", "eval.c", "simplify.c", "rest.c", "profile.c", "ast.c"):
            continue
        for b in fn.blocks.values():
            calls = [e for e in b.elems if fn.nodes[e]["k"] == "call" and fn.nodes[e].get("o") in (EMIT, EMIT_PUSH) + WORDS]
            i = 0
            while i < len(calls):
                e = calls[i]
                nd = fn.nodes[e]
                if nd["o"] != EMIT:
                    i += 1
                    continue
                code = fn.const_val(nd["c"][2]) if len(nd["c"]) > 2 else None
                j = i + 1
                n = 0
                while j < len(calls) and fn.nodes[calls[j]]["o"] in WORDS:
                    n += 1
                    j += 1
                closed = j < len(calls) or (not b.term or b.term in ("BreakStmt", "GotoStmt")) and len([s for s in b.succs if s is not None]) <= 1
                i = j
                if code is None:
                    continue
                stat.sites += 1
                if not closed:
                    continue    # operand emission continues in a conditional: not a straight-line instance
                # the last emit of a block may be followed by words in the successor block
                if j >= len(calls):
                    nxt = [s for s in b.succs if s is not None and s >= 0]
                    if len(nxt) == 1:
                        nb = fn.blocks[nxt[0]]
                        if len(nb.preds) == 1:
                            for e2 in nb.elems:
                                n2 = fn.nodes[e2]
                                if n2["k"] == "call" and n2.get("o") in WORDS:
                                    n += 1
                                elif n2["k"] == "call" and n2.get("o") in (EMIT, EMIT_PUSH):
                                    break
                stat.obligations += 1
                want = words.get(code)
                opname = enum.get(code, str(code))
                if want is None:
                    continue
                if want == n:
                    stat.discharged += 1
                    stat.sample({"site": fn.where(e), "function": fn.name, "opcode": opname, "words": n}, limit=5)
                else:
                    res.add(Finding(prop, "%s.c.operand-width" % prop, fn.name, "%s emitted with %d words" % (opname, n),
                                    fn.where(e), "%s emits %s followed by %d operand word(s), but the VM case for %s reads %d: "
                                    "the instruction pointer goes out of step with the code" % (fn.name, opname, n, opname, want),
                                    unit=fn.unit.display))
    return stat
