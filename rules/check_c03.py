import extract
import callgraph
from rules import c03, common


def run(res, tier, replay=None):
    prog = extract.load_program("default")
    res.functions = sum(1 for _ in prog.all_funcs())
    cg = callgraph.CallGraph(prog)
    c03.run_a(prog, res, cg)
    c03.run_a_functions(prog, res)
    c03.run_b(prog, res)
    c03.run_c(prog, res)
    res.assumptions = common.ASSUMPTIONS
    res.explanation = (
        "C03 agreement clauses: (a) field-read sets of each AST walker (with its static helpers) cover every sub-AST field of "
        "the node types it handles; (b) path enumeration over each VM dispatch case gives the net change of the local `top` at "
        "`break` (raising paths and control transfers excluded), compared with the opcodes[] row (constant-evaluated): -(n) for "
        "void rows because generate_opcode_app pushes the void itself, 1-n otherwise, -1 for folded arithmetic; (c) the number of "
        "sexp_emit_word/label reservations after each constant sexp_emit equals the highest inline operand index the VM case reads. "
        "Not decided: closure-slot indexing, derived-form macros, evaluation results.")
    if tier == "thorough":
        common.thorough_mutations(res, "C03", {
            "C03.a": lambda p, r: (c03.run_a(p, r), c03.run_a_functions(p, r)),
            "C03.b": lambda p, r: c03.run_b(p, r),
            "C03.c": lambda p, r: c03.run_c(p, r),
        })
