"""C01.u - the code generator counts what its instructions push.

The VM reserves `max_depth + 64` stack slots when it enters a procedure (sexp_ensure_stack in make_call); max_depth is
what sexp_inc_context_depth accumulated while the body was generated.  So along every path through a generating
function the values pushed by the instructions it emits itself (instructions whose VM case ends with `top` one higher:
read from the VM's cases) must be covered by the positive depth increments it makes; popping instructions and negative
adjustments are not compared, because the generator also uses negative adjustments to merge the two arms of a
conditional.  An instruction that pushes without being counted
lets a body with many such operands push past the reserved slots and past the end of the stack object.
Calls to other generating functions are taken as balanced (each is checked on its own); a path that emits an opcode
computed at run time, or adjusts the depth by a computed amount, is not decided here (generate_opcode_app and
generate_general_app: C01.t / C03.b)."""
import tables
from report import Finding
from extract import AnalysisBroken

EMITTERS = ("sexp_emit",)
COUNTER = "sexp_inc_context_depth"


def _op_values(fn, n):
    """possible constant values of an opcode argument: a constant, or both arms of a conditional"""
    n = fn.strip(n)
    v = fn.const_val(n)
    if v is not None:
        return {v}
    nd = fn.nodes[n]
    if nd["k"] == "cond" and len(nd.get("c", ())) == 3:
        a, b = _op_values(fn, nd["c"][1]), _op_values(fn, nd["c"][2])
        if a is not None and b is not None:
            return a | b
    return None


def run(prog, res, floor=4):
    from rules import c03
    stat = res.stat("C01.u", "along every path of a generating function the net push of the instructions it emits is "
                    "covered by its depth increments", floor=floor)
    effects, _ = c03.vm_stack_effects(prog)
    enum = dict((v, n) for n, v in tables.enum_values(prog, const_prefix="SEXP_OP_NOOP"))
    if not any(prog.func(e) for e in EMITTERS) or prog.func(COUNTER) is None:
        raise AnalysisBroken("anchor vanished: sexp_emit / sexp_inc_context_depth")

    def eff(code):
        outs = effects.get(code)
        if outs is None:
            return None
        ints = {o for o in outs if isinstance(o, int)}
        if len(ints) != 1 or any(o == "abs" for o in outs):
            return None
        return next(iter(ints))

    for fn in prog.all_funcs():
        if fn.unit.name != "vm.c" or not fn.blocks or fn.name in EMITTERS or fn.name == COUNTER:
            continue
        # per element: ('emit', delta | None) / ('inc', k | None)
        events = {}
        any_emit = False
        for b in fn.blocks.values():
            for ei, e in enumerate(b.elems):
                nd = fn.nodes[e]
                if nd["k"] != "call":
                    continue
                if nd.get("o") in EMITTERS and len(nd["c"]) >= 3:
                    vals = _op_values(fn, nd["c"][2])
                    if vals is None:
                        events[(b.id, ei)] = ("emit", None, e)
                    else:
                        ds = {eff(v) for v in vals}
                        events[(b.id, ei)] = ("emit", None if None in ds else max(ds), e)
                    any_emit = True
                elif nd.get("o") == COUNTER and len(nd["c"]) >= 3:
                    events[(b.id, ei)] = ("inc", fn.const_val(nd["c"][2]), e)
        if not any_emit:
            continue
        stat.sites += 1
        # enumerate paths (each block at most once per path)
        worst = None          # (excess, path of emit nodes)
        unknown_paths = 0
        paths = 0
        stack = [(fn.entry, 0, False, (), frozenset())]
        while stack and paths < 20000:
            bid, bal, unk, ems, onpath = stack.pop()
            if bid in onpath:
                continue
            b = fn.blocks[bid]
            for ei in range(len(b.elems)):
                ev = events.get((bid, ei))
                if ev is None:
                    continue
                if ev[1] is None:
                    unk = True
                elif ev[0] == "emit":
                    if ev[1] > 0:
                        bal += ev[1]
                        ems = ems + (ev[2],)
                elif ev[1] > 0:
                    bal -= ev[1]
            succs = [s for s in b.succs if s is not None and s >= 0]
            if not succs or bid == fn.exit:
                paths += 1
                if unk:
                    unknown_paths += 1
                elif bal > 0 and (worst is None or bal > worst[0]):
                    worst = (bal, ems)
                continue
            for s in succs:
                stack.append((s, bal, unk, ems, onpath | {bid}))
        stat.obligations += 1
        if worst is None:
            stat.discharged += 1
            stat.sample({"function": fn.name, "paths": paths, "paths with computed opcodes or amounts (not decided)": unknown_paths}, limit=6)
        else:
            e = worst[1][-1] if worst[1] else None
            ops = []
            for x in worst[1]:
                vals = _op_values(fn, fn.nodes[x]["c"][2]) or ()
                ops.append("/".join(enum.get(v, str(v)) for v in sorted(vals)))
            res.add(Finding("C01", "C01.u.push-not-counted", fn.name, ", ".join(ops) or "emit",
                            fn.where(e) if e is not None else fn.where(0),
                            "%s emits %s on a path where the instructions it emits push %d more value(s) than its calls of "
                            "sexp_inc_context_depth count: the procedure's max_depth is too small by that much for every such "
                            "operand live at once, sexp_ensure_stack(max_depth + 64) under-reserves and the VM pushes past the end "
                            "of the stack object" % (fn.name, ", ".join(ops), worst[0]), unit=fn.unit.display))
    return stat
