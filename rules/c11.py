"""C11 - green threads: atomicity by construction (rule family F4 + F2 side rules).

Pre-emption happens only in the VM loop, so a C primitive is atomic unless it re-enters the VM.
a. no path in the call graph from the lock/unlock/signal/start/join/scheduler primitives reaches a
   VM entry point or an unresolved indirect call, with the collector's finalizer edge cut;
b. the cut is justified: no finalizer reaches the VM or the allocator, except through
   sexp_finalize_port -> sexp_buffered_flush, which cannot reach its custom-port / string-port arms
   because sexp_finalize_port clears openp first and sexp_buffered_flush tests it before those arms.
"""
import callgraph
from cfg import dominators, elem_positions, enclosing_elem, dominates
from rules.c19 import edge_dominating_atoms
from report import Finding
from extract import AnalysisBroken

PRIMITIVES = ["sexp_mutex_lock", "sexp_mutex_unlock", "sexp_condition_variable_signal",
              "sexp_condition_variable_broadcast", "sexp_thread_start", "sexp_thread_join", "sexp_thread_terminate",
              "sexp_insert_timed", "sexp_delete_list", "sexp_scheduler", "sexp_thread_sleep"]
VM_ENTRY = {"sexp_apply", "sexp_apply1", "sexp_apply2", "sexp_apply3", "sexp_apply_no_err_handler", "sexp_eval_op",
            "sexp_eval_string", "sexp_load_op"}
ALLOC = {"sexp_alloc"}


def run(prog, res, cg=None):
    cg = cg or callgraph.CallGraph(prog)
    u = prog.unit("threads.c")
    if u is None:
        raise AnalysisBroken("anchor vanished: lib/srfi/18/threads.c (green threads not built)")
    stat = res.stat("C11.a", "thread primitives cannot re-enter the VM (call-graph reachability, finalizer edge cut)", floor=8)
    fin = prog.func("sexp_finalize")
    if fin is None:
        raise AnalysisBroken("anchor vanished: sexp_finalize")
    vm = [f for f in cg.funcs if f.name in VM_ENTRY]

    def cut_fin(a, b):
        return a is fin

    for name in PRIMITIVES:
        fn = u.functions.get(name)
        if fn is None:
            raise AnalysisBroken("anchor vanished: %s in threads.c" % name)
        stat.sites += 1
        stat.obligations += 1
        r = cg.reach([fn], cut=cut_fin)
        hit = [f for f in r if f.name in VM_ENTRY]
        unresolved = [(f, d) for f in r for (i, d, t) in cg.indirect.get(f, ()) if t is None]
        if hit:
            path = cg.path({fn}, hit[0])
            res.add(Finding("C11", "C11.a.vm-reentry", name, "reaches " + hit[0].name, fn.where(),
                            "%s can reach %s (%s): re-entering the VM lets the fuel run out inside the primitive, so another "
                            "thread can be scheduled while the mutex / wait-queue update is half done"
                            % (name, hit[0].name, " -> ".join(path)), unit="lib/srfi/18/threads.c", path=path))
        elif unresolved:
            f0, d0 = unresolved[0]
            res.add(Finding("C11", "C11.a.unresolved-call", name, "indirect call %s in %s" % (d0, f0.name), fn.where(),
                            "%s reaches an indirect call (%s in %s) whose targets cannot be resolved" % (name, d0, f0.name),
                            unit="lib/srfi/18/threads.c"))
        else:
            stat.discharged += 1
            stat.sample({"primitive": name, "reachable_functions": len(r), "vm_entry": "unreachable (finalizer edge cut)"}, limit=4)
    # ---- justification of the cut
    stat2 = res.stat("C11.b", "finalizers cannot reach the VM or the allocator; the port finalizer's flush is confined to the "
                     "closed-port arms (openp cleared before, tested inside)", floor=4)
    fp = prog.func("sexp_finalize_port")
    bf = prog.func("sexp_buffered_flush")
    if fp is None or bf is None:
        raise AnalysisBroken("anchor vanished: sexp_finalize_port / sexp_buffered_flush")
    finalizers = sorted(cg.field_targets.get("finalize", ()), key=lambda f: f.name)
    if len(finalizers) < 3:
        raise AnalysisBroken("anchor vanished: fewer than 3 functions installed as finalizers")

    def cut_port(a, b):
        return a is fp and b is bf

    for f in finalizers:
        stat2.sites += 1
        stat2.obligations += 1
        r = cg.reach([f], cut=cut_port)
        hit = [g for g in r if g.name in VM_ENTRY or g.name in ALLOC]
        if hit:
            path = cg.path({f}, hit[0])
            res.add(Finding("C11", "C11.b.finalizer-reaches-vm", f.name, "reaches " + hit[0].name, f.where(),
                            "finalizer %s can reach %s (%s): a collection triggered inside a thread primitive would run "
                            "Scheme code (or allocate during a collection)" % (f.name, hit[0].name, " -> ".join(path)),
                            unit=f.unit.display, path=path))
        else:
            stat2.discharged += 1
            stat2.sample({"finalizer": f.name, "reachable": len(r)}, limit=3)
    # J1: openp = 0 dominates the flush call in sexp_finalize_port
    stat2.obligations += 1
    pos = elem_positions(fp)
    dom = dominators(fp)
    stores = []
    flushes = []
    for i, nd in enumerate(fp.nodes):
        if nd["k"] == "bin" and nd["o"] == "=":
            l = fp.strip(nd["c"][0])
            if fp.nodes[l]["k"] == "mem" and fp.nodes[l]["o"] == "openp":
                root, path = fp.mempath(l)
                if path == ["value", "port", "openp"] and fp.const_val(nd["c"][1]) == 0:
                    stores.append(enclosing_elem(fp, i, pos))
        if nd["k"] == "call" and nd.get("o") == "sexp_buffered_flush":
            flushes.append((i, enclosing_elem(fp, i, pos)))
    j1 = bool(flushes) and all(any(dominates(dom, s, p) for s in stores) for (_i, p) in flushes)
    if j1:
        stat2.discharged += 1
    else:
        res.add(Finding("C11", "C11.b.flush-before-close", "sexp_finalize_port", "openp cleared before flush",
                        fp.where(), "sexp_finalize_port flushes the port before clearing its openp flag: the flush of a custom "
                        "port then calls the port's Scheme writer from inside a collection", unit=fp.unit.display))
    # J2: in sexp_buffered_flush every call that can reach the VM / allocator sits under `openp` known true
    stat2.obligations += 1
    pos = elem_positions(bf)
    dom = dominators(bf)
    bad = []
    reach_vm = cg.reaches_any(VM_ENTRY | ALLOC)
    for i, nd in enumerate(bf.nodes):
        if nd["k"] != "call":
            continue
        tgt = cg.resolve(bf.unit, nd["o"]) if nd.get("o") else None
        if tgt is None or (tgt not in reach_vm and tgt.name not in VM_ENTRY):
            continue
        here = enclosing_elem(bf, i, pos)
        ok = False
        for (a, pol) in edge_dominating_atoms(bf, here, dom):
            an = bf.nodes[a]
            if pol and an["k"] == "mem" and an["o"] == "openp":
                ok = True
        if not ok:
            bad.append(i)
    if not bad:
        stat2.discharged += 1
        stat2.sample({"function": "sexp_buffered_flush", "verdict": "calls that may reach the VM are dominated by openp != 0"})
    else:
        res.add(Finding("C11", "C11.b.flush-arm-unguarded", "sexp_buffered_flush", bf.txt(bad[0])[:50], bf.where(bad[0]),
                        "sexp_buffered_flush can call %s without having tested that the port is still open: the port "
                        "finalizer's forced flush would then run Scheme code inside a collection" % bf.nodes[bad[0]].get("o"),
                        unit=bf.unit.display))
    return stat


def run_c(prog, res, root=None):
    """Scheme half of the atomicity argument: the lock/owner/waiter slots of Mutex and
    Condition-Variable records are written only by the C primitives (which are atomic, clause a).
    The record setters for those slots, discovered from lib/srfi/18/types.scm, must not be used by
    the library's Scheme code nor exported."""
    import os
    import slint
    from slint import Lst, Sym, head
    root = root or getattr(prog, "root", None) or "/repo"
    stat = res.stat("C11.c", "(srfi 18) Scheme code never writes the lock/owner/waiter slots itself (only the atomic C "
                    "primitives do)", floor=2)
    d = os.path.join(root, "lib", "srfi", "18")
    types = os.path.join(d, "types.scm")
    if not os.path.exists(types):
        raise AnalysisBroken("anchor vanished: lib/srfi/18/types.scm")
    setters = {}
    for f in slint.read_file(types):
        if head(f) == "define-record-type" and len(f) > 3 and str(f[1]) in ("Mutex", "Condition-Variable"):
            for fld in f[4:]:
                if isinstance(fld, Lst) and len(fld) >= 3 and str(fld[0]) != "specific":
                    setters[str(fld[2])] = "%s.%s" % (f[1], fld[0])
    if len(setters) < 2:
        raise AnalysisBroken("anchor vanished: Mutex / Condition-Variable setters in types.scm")
    files = [os.path.join(d, x) for x in sorted(os.listdir(d)) if x.endswith(".scm")] + \
            [os.path.join(root, "lib", "srfi", "18.sld")]
    for path in files:
        if not os.path.exists(path):
            continue
        forms = slint.read_file(path)
        rel = os.path.relpath(path, root)
        for name, slot in setters.items():
            stat.sites += 1
            stat.obligations += 1
            uses = []
            st = list(forms)
            while st:
                x = st.pop()
                if isinstance(x, Lst):
                    if head(x) == "define-record-type":
                        continue
                    st.extend(x)
                elif isinstance(x, Sym) and str(x) == name:
                    uses.append(getattr(x, "line", 0))
            if not uses:
                stat.discharged += 1
            else:
                res.add(Finding("C11", "C11.c.scheme-writes-lock-slot", name, "%s in %s" % (name, os.path.basename(path)),
                                "%s:%d" % (rel, uses[0]),
                                "%s uses the record setter %s (slot %s): the lock state is then updated by several VM "
                                "instructions, between which the thread can be pre-empted - only the C primitives, which are "
                                "single instructions, may write it" % (rel, name, slot), unit=rel))
    stat.sample({"setters_checked": sorted(setters), "files": [os.path.relpath(p, root) for p in files if os.path.exists(p)]})
    return stat


# ------------------------------------------------------------------ C11.d
def run_d(prog, res, floor=4):
    """wake-ups are matched on the paused thread's event field: every primitive that pauses the
    current thread (queues ctx itself with sexp_insert_timed) stores that thread's event and its
    waitp flag on every path before it queues it - a stale event makes a sleeper steal the next
    signal / unlock meant for a real waiter"""
    from cfg import dominators, elem_positions, enclosing_elem, reach_without
    stat = res.stat("C11.d", "every primitive that queues the current thread as paused stores its event and waitp fields "
                    "on every path first", floor=floor)
    for fn in prog.all_funcs():
        if fn.unit.name != "threads.c" or fn.name == "sexp_scheduler" or not fn.blocks:
            continue
        pos = None
        for i, nd in enumerate(fn.nodes):
            if nd["k"] != "call" or nd.get("o") != "sexp_insert_timed" or len(nd["c"]) < 3:
                continue
            a_ctx, a_thr = fn.strip(nd["c"][1]), fn.strip(nd["c"][2])
            if fn.txt(a_ctx) != fn.txt(a_thr):
                continue        # queues another thread
            if pos is None:
                pos = elem_positions(fn)
            pc = enclosing_elem(fn, i, pos)
            if pc is None:
                continue
            who = fn.txt(a_thr)
            for field in ("event", "waitp"):
                stat.sites += 1
                stat.obligations += 1
                stores = []
                for j, n2 in enumerate(fn.nodes):
                    if n2["k"] == "bin" and n2["o"] == "=":
                        l = fn.strip(n2["c"][0])
                        if fn.nodes[l]["k"] == "mem" and fn.nodes[l].get("o") == field:
                            o2, path = fn.mempath(l)
                            if path[:2] == ["value", "context"] and fn.txt(o2) == who:
                                p = enclosing_elem(fn, j, pos)
                                if p is not None:
                                    stores.append(p)
                entry = (fn.entry, -1)
                # is the call reachable from the entry without passing any of the stores?
                if stores and not reach_without(fn, entry, pc, set(stores)):
                    stat.discharged += 1
                    stat.sample({"function": fn.name, "field": field, "where": fn.where(i)})
                else:
                    res.add(Finding("C11", "C11.d.pause-without-" + field, fn.name, "%s of %s" % (field, who), fn.where(i),
                                    "%s queues the current thread as paused, but a path reaches the sexp_insert_timed call "
                                    "without storing %s->%s: signals and unlocks look for their waiter by that field, so a "
                                    "value left over from an earlier wait makes this thread take a wake-up meant for another "
                                    "(lost wake-up)" % (fn.name, who, field), unit=fn.unit.display))
    return stat


def run_e(prog, res, floor=5):
    """the run queue is a list with two ends kept in two context globals: a function that changes the FRONT
    global also maintains the BACK global (stores it, or on the way to / from that store nothing else re-points
    FRONT).  A front that is updated alone leaves the tail pointing at a cell that is no longer (or not yet) in
    the queue, and the next enqueue at the tail drops whatever hangs off the front."""
    import tables
    from cfg import elem_positions, enclosing_elem, reach_without
    stat = res.stat("C11.e", "every store to the run queue's FRONT global is accompanied by a store to its BACK global "
                    "reachable from it (or reaching it) without another FRONT store in between", floor=floor)
    en = dict(tables.enum_values(prog, const_prefix="SEXP_G_THREADS_FRONT"))
    F, B = en.get("SEXP_G_THREADS_FRONT"), en.get("SEXP_G_THREADS_BACK")
    if F is None or B is None:
        raise AnalysisBroken("anchor vanished: SEXP_G_THREADS_FRONT / SEXP_G_THREADS_BACK")

    def global_store(fn, nd):
        out = []
        if nd["k"] == "bin" and nd["o"] == "=":
            l = fn.strip(nd["c"][0])
            ln = fn.nodes[l]
            if ln["k"] == "idx" and "context.globals" in fn.txt(ln["c"][0]):
                out.append(fn.const_val(ln["c"][1]))
        return out
    for fn in prog.all_funcs():
        if not fn.blocks:
            continue
        fs, bs = [], []
        for i, nd in enumerate(fn.nodes):
            for g in global_store(fn, nd):
                if g == F:
                    fs.append(i)
                elif g == B:
                    bs.append(i)
        if not fs:
            continue
        pos = elem_positions(fn)
        fpos = {i: enclosing_elem(fn, i, pos) for i in fs}
        bpos = [enclosing_elem(fn, i, pos) for i in bs]
        for i in fs:
            stat.sites += 1
            stat.obligations += 1
            p = fpos[i]
            others = {q for j, q in fpos.items() if j != i and q is not None and q != p}
            ok = False
            for q in bpos:
                if q is None or p is None:
                    continue
                if q == p or reach_without(fn, p, q, others) or reach_without(fn, q, p, others):
                    ok = True
                    break
            if ok:
                stat.discharged += 1
                stat.sample({"function": fn.name, "site": fn.where(i)}, limit=6)
            else:
                res.add(Finding("C11", "C11.e.front-without-back", fn.name, "store to THREADS_FRONT", fn.where(i),
                                "%s re-points the run queue's FRONT global without maintaining its BACK global: when the queue "
                                "was empty the tail still says so, and the next thread appended at the tail replaces the whole "
                                "queue - the thread just made runnable is never scheduled again" % fn.name,
                                unit=fn.unit.display))
    return stat


def run_f(prog, res, floor=1):
    """a function that sets a thread's wake-up deadline on some path sets it on every path: the deadline of an
    earlier timed wait must not survive into an untimed one (the scheduler wakes every paused thread whose
    non-zero deadline has passed, and the lock / join primitives take that wake-up for a timeout)"""
    from cfg import elem_positions, enclosing_elem, reach_without
    stat = res.stat("C11.f", "functions that write the deadline (context.tval) of a thread they were handed write it on every path",
                    floor=floor)
    for fn in prog.all_funcs():
        if fn.unit.name != "threads.c" or not fn.blocks:
            continue
        defs = {}
        # locals that point at the deadline of a parameter's thread: tv = &thread->value.context.tval
        alias = {}
        for nd in fn.nodes:
            rhs = vid = None
            if nd["k"] == "decl" and "d" in nd and nd.get("c"):
                vid, rhs = nd["d"], nd["c"][0]
            elif nd["k"] == "bin" and nd["o"] == "=":
                l0 = fn.strip(nd["c"][0])
                if fn.nodes[l0]["k"] == "ref" and "d" in fn.nodes[l0]:
                    vid, rhs = fn.nodes[l0]["d"], nd["c"][1]
            if vid is None or vid in fn.params:
                continue
            r0 = fn.strip(rhs)
            if fn.nodes[r0]["k"] == "un" and fn.nodes[r0]["o"] == "&":
                t0 = fn.strip(fn.nodes[r0]["c"][0])
                if fn.nodes[t0]["k"] == "mem":
                    root0, path0 = fn.mempath(t0)
                    rr = fn.strip(root0)
                    if path0[:3] == ["value", "context", "tval"] and fn.nodes[rr]["k"] == "ref" and fn.nodes[rr].get("d") in fn.params:
                        alias[vid] = fn.nodes[rr]["d"]
        for i, nd in enumerate(fn.nodes):
            # through an alias: tv->tv_sec = ..., or tv handed to a helper that fills it
            if alias:
                if nd["k"] == "bin" and nd["o"] in ("=", "+=", "-="):
                    t1 = fn.strip(nd["c"][0])
                    if fn.nodes[t1]["k"] == "mem":
                        r1, p1 = fn.mempath(t1)
                        r1 = fn.strip(r1)
                        if fn.nodes[r1]["k"] == "ref" and fn.nodes[r1].get("d") in alias and (not p1 or p1[-1] == "tv_sec"):
                            defs.setdefault(alias[fn.nodes[r1]["d"]], []).append(i)
                if nd["k"] == "call":
                    for a in nd["c"][1:]:
                        a0 = fn.strip(a)
                        if fn.nodes[a0]["k"] == "ref" and fn.nodes[a0].get("d") in alias:
                            defs.setdefault(alias[fn.nodes[a0]["d"]], []).append(i)
        for i, nd in enumerate(fn.nodes):
            tgt = None
            if nd["k"] == "bin" and nd["o"] in ("=", "+=", "-="):
                # `+=` counts: it follows a gettimeofday() under a test that the type dispatch repeats (fixnum => real),
                # a correlation the path enumeration does not see
                tgt = fn.strip(nd["c"][0])
            elif nd["k"] == "un" and nd["o"] == "&" and fn.parent(i) is not None:
                par = fn.parent(i)
                while par is not None and fn.nodes[par]["k"] == "cast":
                    par = fn.parent(par)
                if par is not None and fn.nodes[par]["k"] == "call":
                    tgt = fn.strip(nd["c"][0])      # &tval handed to a call that fills it (gettimeofday)
            if tgt is None or fn.nodes[tgt]["k"] != "mem":
                continue
            root, path = fn.mempath(tgt)
            if path[:3] != ["value", "context", "tval"] or (len(path) > 3 and path[3] != "tv_sec"):
                continue
            r = fn.strip(root)
            if fn.nodes[r]["k"] == "ref" and fn.nodes[r].get("d") in fn.params:
                defs.setdefault(fn.nodes[r]["d"], []).append(i)
        if not defs:
            continue
        pos = elem_positions(fn)
        for vid, sites in defs.items():
            stat.sites += 1
            stat.obligations += 1
            kills = {enclosing_elem(fn, i, pos) for i in sites} - {None}
            if not reach_without(fn, (fn.entry, -1), (fn.exit, 0), kills):
                stat.discharged += 1
                stat.sample({"function": fn.name, "thread": fn.vars[vid]["n"], "defining_sites": len(sites)})
            else:
                res.add(Finding("C11", "C11.f.deadline-not-defined", fn.name, "tval of %s" % fn.vars[vid]["n"], fn.where(sites[0]),
                                "%s sets the wake-up deadline of `%s` on some paths but returns on another without defining it: "
                                "the deadline of an earlier timed wait survives, the scheduler wakes the thread as timed out and "
                                "an untimed mutex-lock! / thread-join! reports a timeout that was never asked for"
                                % (fn.name, fn.vars[vid]["n"]), unit=fn.unit.display))
    return stat


# ------------------------------------------------------------------ C11.g
def run_g(prog, res, floor=6):
    """a wake-up decides both flags: the lock / unlock-and-wait / join retry loops of interface.scm ask
    `thread-timeout?` right after the thread is resumed, so every place that ends a thread's wait
    (stores 0 to its waitp flag) also defines its timeoutp flag in the same straight-line region - 0 when
    the awaited event happened, 1 when the deadline passed.  A wake-up that leaves the flag alone hands the
    resumed thread the answer of its *previous* wait: a signalled condition-variable wait or a granted lock
    is reported as timed out.  Accepted alternative (not today's code): every pausing primitive whose resume
    consults the flag clears it itself before it sets waitp."""
    from cfg import elem_positions, enclosing_elem
    stat = res.stat("C11.g", "every store that ends a thread's wait (waitp = 0) is accompanied, in the same basic block, by a store "
                    "that defines its timeoutp flag", floor=floor)

    def ctx_store(fn, nd, field):
        """object text if nd is `X->value.context.<field> = ...`"""
        if nd["k"] == "bin" and nd["o"] == "=":
            l = fn.strip(nd["c"][0])
            if fn.nodes[l]["k"] == "mem" and fn.nodes[l].get("o") == field:
                o2, path = fn.mempath(l)
                if path[:2] == ["value", "context"]:
                    return fn.txt(o2)
        return None

    def rhs_const(fn, nd):
        r = fn.strip(nd["c"][1])
        while fn.nodes[r]["k"] == "bin" and fn.nodes[r]["o"] == "=":      # a = b = 0
            r = fn.strip(fn.nodes[r]["c"][1])
        return fn.const_val(r)
    fns = [fn for fn in prog.all_funcs() if fn.unit.name == "threads.c" and fn.blocks]
    # alternative discipline: all pausing primitives (other than plain sleep, whose resume never asks) clear the flag
    pausers, clearing = [], []
    for fn in fns:
        pos = None
        for i, nd in enumerate(fn.nodes):
            who = ctx_store(fn, nd, "waitp")
            if who is None or rhs_const(fn, nd) != 1 or fn.name == "sexp_thread_sleep":
                continue
            pos = pos or elem_positions(fn)
            p = enclosing_elem(fn, i, pos)
            ok = False
            for j, n2 in enumerate(fn.nodes):
                if ctx_store(fn, n2, "timeoutp") == who:
                    q = enclosing_elem(fn, j, pos)
                    if p is not None and q is not None and q[0] == p[0] and q[1] <= p[1]:
                        ok = True
            pausers.append((fn.name, fn.where(i)))
            if ok:
                clearing.append((fn.name, fn.where(i)))
    cleared_at_pause = bool(pausers) and len(clearing) == len(pausers)
    for fn in fns:
        pos = None
        for i, nd in enumerate(fn.nodes):
            who = ctx_store(fn, nd, "waitp")
            if who is None or rhs_const(fn, nd) != 0:
                continue
            pos = pos or elem_positions(fn)
            p = enclosing_elem(fn, i, pos)
            stat.sites += 1
            stat.obligations += 1
            ok = cleared_at_pause
            for j, n2 in enumerate(fn.nodes):
                if ctx_store(fn, n2, "timeoutp") == who:
                    q = enclosing_elem(fn, j, pos)
                    if p is not None and q is not None and q[0] == p[0]:
                        ok = True
            if ok:
                stat.discharged += 1
                stat.sample({"function": fn.name, "thread": who, "where": fn.where(i)}, limit=8)
            else:
                res.add(Finding("C11", "C11.g.wake-leaves-timeout-flag", fn.name, "waitp of %s" % who, fn.where(i),
                                "%s ends the wait of `%s` (waitp = 0) without defining its timeoutp flag: mutex-lock!, "
                                "mutex-unlock! with a condition variable and thread-join! ask thread-timeout? as soon as the "
                                "thread is resumed, so the flag left by an earlier timed wait makes a wait that was signalled / "
                                "granted report a timeout" % (fn.name, who), unit=fn.unit.display))
    stat.sample({"pausing_sites": len(pausers), "pausing_sites_clearing_timeoutp": len(clearing)})
    return stat
