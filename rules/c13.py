"""C13 - context isolation: inventory of process-wide mutable state with confined writers (F8).

Every variable with static storage defined in a parsed unit is either effectively read-only (no
function stores to it, increments it, or hands its address to a parameter through which it is
written) or listed in AUDIT with the functions allowed to write it and the reason the state does
not leak between independent contexts.  A new writable global, or a new writer of an audited one,
is a violation."""
import re

from report import Finding
from extract import AnalysisBroken

AUDIT = {
    "sexp_initialized_p": ({"sexp_init"},
                           "idempotent one-time initialisation flag of the library (only ever set to 1)"),
    "scheme_initialized_p": ({"sexp_scheme_init"},
                             "idempotent one-time initialisation flag of the evaluator (only ever set to 1)"),
    "gc_heap_err_str": ({"unit:gc_heap.c"},
                        "error-message buffer of the image save/load/pack code, written (snprintf, bounded) only on failure "
                        "paths inside gc_heap.c and read back into an exception message; it IS shared by all contexts - two OS "
                        "threads failing in image code at the same time race on the message text (observation recorded in "
                        "DESIGN.md; no interpreter state is derived from it)"),
    "call_sigaction": ({"sexp_init_signals", "sexp_set_signal_action"},
                       "POSIX signal dispositions are per process by nature; (chibi process) keeps one table for the process"),
    "call_sigdefault": ({"sexp_init_signals", "sexp_set_signal_action"}, "as call_sigaction"),
    "call_sigignore": ({"sexp_init_signals", "sexp_set_signal_action"}, "as call_sigaction"),
    "sexp_signal_contexts": ({"sexp_set_signal_action", "sexp_init_signals"},
                             "which context receives a POSIX signal: per-process by nature, indexed by signal number"),
    "local_ref_op": ({"sexp_init_library"},
                     "template opcode of (chibi optimize rest), copied into each context's heap at library initialisation"),
}

# external functions that write through a pointer argument (index) / that only read
EXTERNAL_WRITES = {"memcpy": {0}, "memmove": {0}, "memset": {0}, "strcpy": {0}, "strncpy": {0}, "snprintf": {0},
                   "sprintf": {0}, "sigfillset": {0}, "sigemptyset": {0}, "sigaddset": {0}, "strcat": {0},
                   "__builtin_memcpy": {0}, "__builtin_memset": {0}, "vsnprintf": {0}}


def _root_global(fn, n):
    x = fn.strip(n)
    derefs = 0
    while fn.nodes[x]["k"] in ("mem", "idx") or (fn.nodes[x]["k"] == "un" and fn.nodes[x]["o"] == "*"):
        if fn.nodes[x]["k"] == "mem" and fn.nodes[x].get("ar"):
            derefs += 1
        if fn.nodes[x]["k"] == "un":
            derefs += 1
        x = fn.strip(fn.nodes[x]["c"][0])
    nd = fn.nodes[x]
    if nd["k"] == "ref" and nd.get("dk") in ("g", "s"):
        return nd["o"], x, derefs
    return None, None, 0


def writes_through_param(prog, fn, pidx, depth=0):
    """does function fn store through its pointer parameter #pidx (directly, via memcpy-like
    externals, or by handing it on)?"""
    if pidx >= len(fn.params) or depth > 2:
        return True
    vid = fn.params[pidx]
    for i, nd in enumerate(fn.nodes):
        if nd["k"] == "bin" and nd["o"].endswith("=") and nd["o"] not in ("==", "!=", "<=", ">="):
            l = fn.strip(nd["c"][0])
            x = l
            through = False
            while fn.nodes[x]["k"] in ("mem", "idx") or (fn.nodes[x]["k"] == "un" and fn.nodes[x]["o"] == "*"):
                through = True
                x = fn.strip(fn.nodes[x]["c"][0])
            if through and fn.nodes[x]["k"] == "ref" and fn.nodes[x].get("d") == vid:
                return True
        if nd["k"] == "call":
            for ai, a in enumerate(nd["c"][1:]):
                a0 = fn.strip(a)
                if fn.nodes[a0]["k"] == "ref" and fn.nodes[a0].get("d") == vid:
                    name = nd.get("o")
                    if name in EXTERNAL_WRITES:
                        if ai in EXTERNAL_WRITES[name]:
                            return True
                        continue
                    callee = prog.func(name, fn.unit) if name else None
                    if callee is None:
                        if not _const_param(fn, nd, ai):
                            return True
                    elif writes_through_param(prog, callee, ai, depth + 1):
                        return True
    return False


def _const_param(fn, call_nd, ai):
    """parameter #ai of an external callee is declared pointer-to-const"""
    t = fn.type(call_nd["c"][0]) or ""
    m = re.search(r"\((.*)\)\s*$", t)
    if not m:
        return False
    params = [p.strip() for p in m.group(1).split(",")]
    return ai < len(params) and params[ai].startswith("const ")


def run(prog, res):
    stat = res.stat("C13.inventory", "variables with static storage: no writer, or writers within the audited set", floor=25)
    globs = {}
    for u in prog.units:
        if u.display.startswith("tests/"):
            continue
        for g in u.globals:
            if g.is_def and not g.const:
                globs.setdefault(g.name, (u, g))
    writers = {}
    for fn in prog.all_funcs():
        if fn.unit.display.startswith("tests/"):
            continue
        for i, nd in enumerate(fn.nodes):
            k = nd["k"]
            if k == "bin" and nd["o"].endswith("=") and nd["o"] not in ("==", "!=", "<=", ">="):
                name, x, derefs = _root_global(fn, nd["c"][0])
                if name and derefs == 0:
                    writers.setdefault(name, {}).setdefault(fn.name, fn.where(i))
            elif k == "un" and nd["o"] in ("pre++", "post++", "pre--", "post--"):
                name, x, derefs = _root_global(fn, nd["c"][0])
                if name and derefs == 0:
                    writers.setdefault(name, {}).setdefault(fn.name, fn.where(i))
            elif k == "call":
                for ai, a in enumerate(nd["c"][1:]):
                    a0 = fn.strip(a)
                    an = fn.nodes[a0]
                    target = None
                    # &g..., or conditional of such, or an array global decaying to a pointer
                    for y in fn.subtree(a0):
                        yn = fn.nodes[y]
                        if yn["k"] == "un" and yn["o"] == "&":
                            name, x, derefs = _root_global(fn, yn["c"][0])
                            if name and derefs == 0:
                                target = name
                        elif yn["k"] == "ref" and yn.get("dk") in ("g", "s") and "[" in (fn.type(y) or ""):
                            par = fn.parent(y)
                            if par is None or fn.nodes[par]["k"] not in ("idx", "mem"):
                                target = yn["o"]
                    if not target:
                        continue
                    cname = nd.get("o")
                    wr = False
                    if cname in EXTERNAL_WRITES:
                        wr = ai in EXTERNAL_WRITES[cname]
                    else:
                        callee = prog.func(cname, fn.unit) if cname else None
                        if callee is None:
                            wr = not _const_param(fn, nd, ai)
                        else:
                            wr = writes_through_param(prog, callee, ai)
                    if wr:
                        writers.setdefault(target, {}).setdefault(fn.name, fn.where(i))
    for name, (u, g) in sorted(globs.items()):
        stat.sites += 1
        stat.obligations += 1
        w = writers.get(name, {})
        allowed, reason = AUDIT.get(name, (set(), None))
        unit_ok = {a[5:] for a in allowed if a.startswith("unit:")}
        extra = sorted(f for f in set(w) - allowed if not (unit_ok and w[f].split(":")[0].split("/")[-1] in unit_ok))
        if not extra:
            stat.discharged += 1
            if w:
                stat.sample({"global": name, "unit": u.display, "writers": sorted(w), "audit": reason[:90]}, limit=6)
            else:
                stat.sample({"global": name, "unit": u.display, "writers": "none (effectively read-only)"}, limit=2)
        else:
            for fname in extra:
                res.add(Finding("C13", "C13.unaudited-writer", fname, "global %s" % name, w[fname],
                                "%s writes the process-wide variable `%s` (%s, %s)%s: state shared by every context in the "
                                "process - independent contexts driven from different OS threads race on it, and what one "
                                "context does becomes observable from another"
                                % (fname, name, g.type_s[:40], u.display,
                                   "" if name in AUDIT else ", which is not in the audited inventory"),
                                unit=u.display))
    missing = [n for n in AUDIT if n not in globs]
    if len(missing) > 3:
        res.broken.append("C13: audited globals vanished: %s" % missing)
    return stat


# ------------------------------------------------------------------ C13.libc
# libc interfaces that keep *mutable* hidden process-wide state which later calls observe (generator state, the
# environment / locale / cwd / umask when written, strtok's cursor) or that return a pointer into a static buffer
# the next call overwrites: every caller is audited; a new call couples the contexts of the process through state
# the inventory cannot see.  Read-only queries of process state (getenv, strerror, dlerror) are deliberately not
# listed: a new reader does not let one context influence another.
HIDDEN_STATE_LIBC = {
    "rand", "srand", "random", "srandom", "initstate", "setstate", "drand48", "erand48", "lrand48", "nrand48", "mrand48",
    "jrand48", "srand48", "seed48", "lcong48", "strtok", "localtime", "gmtime", "asctime", "ctime", "setenv", "unsetenv", "putenv", "clearenv", "setlocale", "getpwnam", "getpwuid", "getgrnam", "getgrgid",
    "readdir", "ttyname", "tmpnam", "tempnam", "inet_ntoa", "gethostbyname", "gethostbyaddr",
    "getservbyname", "getprotobyname", "crypt", "ptsname", "strsignal", "getlogin", "ctermid", "l64a", "ecvt", "fcvt",
    "gcvt", "getopt", "wcstombs", "mblen", "mbtowc", "wctomb", "umask", "chdir", "srand_r",
}

LIBC_AUDIT = {
    ("setenv", "sexp_setenv"): "(chibi ast) setenv: the process environment is per process by nature",
    ("unsetenv", "sexp_unsetenv"): "(chibi ast) unsetenv: as setenv",
    ("readdir", "sexp_readdir_stub"): "the static dirent belongs to the DIR stream the caller passes; one stream is not shared between contexts",
    ("chdir", "sexp_change_directory_stub"): "(chibi filesystem): the working directory is per process by nature",
    ("chdir", "sexp_chdir_stub"): "(chibi filesystem): the working directory is per process by nature",
    ("umask", "sexp_set_file_creation_mask_stub"): "(chibi filesystem): the creation mask is per process by nature",
    ("umask", "sexp_umask_stub"): "(chibi filesystem): the creation mask is per process by nature",
}


def run_libc(prog, res, floor=2):
    stat = res.stat("C13.libc", "calls to libc interfaces with hidden process-wide state: every caller is in the audited table",
                    floor=floor)
    for fn in prog.all_funcs():
        if fn.unit.display.startswith("tests/"):
            continue
        for i, nd in enumerate(fn.nodes):
            if nd["k"] != "call" or nd.get("o") not in HIDDEN_STATE_LIBC:
                continue
            # a function of that name defined in the program itself is not the libc one
            if prog.func(nd["o"], fn.unit) is not None:
                continue
            stat.sites += 1
            stat.obligations += 1
            key = (nd["o"], fn.name)
            if key in LIBC_AUDIT:
                stat.discharged += 1
                stat.sample({"call": nd["o"], "in": fn.name, "where": fn.where(i), "audit": LIBC_AUDIT[key][:70]})
            else:
                res.add(Finding("C13", "C13.libc.hidden-state", fn.name, nd["o"], fn.where(i),
                                "%s calls %s(), whose state is hidden inside the C library and shared by the whole process: "
                                "independent contexts (and OS threads driving them) observe and disturb one another through "
                                "it; the call is not in the audited table" % (fn.name, nd["o"]), unit=fn.unit.display))
    return stat
