import extract
from rules import c05, common


def run(res, tier, replay=None):
    prog = extract.load_program("default", only={"vm.c", "eval.c", "opcodes.c", "sexp.c"})
    res.functions = sum(1 for _ in prog.all_funcs())
    c05.run_a(prog, res)
    c05.run_b(prog, res)
    c05.run_c(prog, res)
    res.assumptions = common.ASSUMPTIONS
    res.explanation = (
        "C05, compiler half: (a) forward dataflow of the abstract tail flag {ENTRY,0,1,clobbered} (powerset, union at joins; any "
        "nested generation call clobbers it because callees such as generate_set do not restore it) through every generate_* "
        "function; at each generation call the role of the sub-expression (read from its accessor / loop position) fixes the "
        "admissible flag values; (b) every emission of SEXP_OP_TAIL_CALL is the true arm of a condition on a local loaded from the "
        "flag; (c) the VM's TAIL_CALL and APPLY1 cases assign top from fp on every path to make_call. Not decided: that the "
        "er-macro definitions of cond/case/and/or/do keep the user's expression in tail position, stack growth / out-of-stack.")
    if tier == "thorough":
        common.thorough_mutations(res, "C05", {
            "C05.a": lambda p, r: c05.run_a(p, r),
            "C05.b": lambda p, r: c05.run_b(p, r),
            "C05.c": lambda p, r: c05.run_c(p, r),
        })
