"""C16 - weak references / finalizers: structural clauses

a. collection phase order (mark* -> weak reset -> finalize -> sweep) on every path of sexp_gc,
   and mark -> finalize -> sweep -> finalize in sexp_destroy_context
b. ephemeron row (rules/f3.py)
c. descriptors are released exactly once: every close()/fclose() of a fileno's fd or a port's
   stream is dominated by the owner's openp test and by the store openp = 0 on the same object;
   the shared-fileno reference count has exactly one decrement site
"""
from cfg import PathExplorer, dominators, elem_positions, enclosing_elem, dominates, implied
from report import Finding
from extract import AnalysisBroken

PHASE = {
    "sexp_mark": "M", "sexp_mark_global_symbols": "M", "sexp_conservative_mark": "M",
    "sexp_reset_weak_references": "W", "sexp_finalize": "F", "sexp_sweep": "S",
}
# allowed transitions of the phase automaton per anchored function
ORDER = {
    "sexp_gc": {"": "M", "M": "MWF", "W": "F", "F": "S", "S": ""},
    "sexp_destroy_context": {"": "M", "M": "MF", "F": "S", "S": "E", "E": ""},
}
FINAL = {"sexp_gc": "S", "sexp_destroy_context": "E"}


def phase_order(prog, res):
    stat = res.stat("C16.a", "collection phase order on every CFG path of sexp_gc / sexp_destroy_context", floor=2)
    for fname, auto in ORDER.items():
        fn = prog.func(fname)
        if fn is None:
            raise AnalysisBroken("anchor vanished: function %s" % fname)
        stat.sites += 1
        stat.obligations += 1
        bad = []

        def transfer(bid, e, st, fn=fn, auto=auto, fname=fname):
            nd = fn.nodes[e]
            if nd["k"] != "call" or nd.get("o") not in PHASE:
                return None
            ph = PHASE[nd["o"]]
            if fname == "sexp_destroy_context" and ph == "F" and st == "S":
                ph = "E"    # the second finalize pass after the sweep
            if ph not in auto.get(st, ""):
                bad.append((e, st, nd["o"]))
                return [st]
            return [ph]

        def at_exit(bid, st, key, fn=fn, fname=fname):
            # early error returns (finalize reported a corrupt heap) are allowed to stop
            if st != FINAL[fname] and st not in ("", ) and not _returns_error(fn, bid):
                bad.append((None, st, "return"))

        ex = PathExplorer(fn, transfer, None, at_exit)
        ex.run("")
        if not bad:
            stat.discharged += 1
            stat.sample({"function": fname, "where": fn.where(), "order": "".join(sorted(set(auto)))})
        for (e, st, what) in bad[:3]:
            res.add(Finding("C16", "C16.a.phase-order", fname, "%s after %s" % (what, st or "start"),
                            fn.where(e), "%s is reached in phase state '%s': the weak pass and the finalizers read mark "
                            "bits that the sweep clears and must see the complete marking (expected order mark, weak reset, "
                            "finalize, sweep)" % (what, st), unit=fn.unit.display))
    return stat


def _returns_error(fn, bid):
    from cfg import return_node
    rn = return_node(fn, bid)
    if rn is None:
        return False
    t = fn.txt(rn)
    return t.startswith("return 62") or "SEXP_FALSE" in t or t == "return 0"


RELEASERS = {"close": 0, "fclose": 0, "closedir": 0}


def _owner_of(fn, arg):
    """if the released resource is read from a fileno's fd or a port's stream return
    (kind, owner text) else None"""
    for x in fn.subtree(arg):
        nd = fn.nodes[x]
        if nd["k"] == "mem":
            root, path = fn.mempath(x)
            if path == ["value", "fileno", "fd"]:
                return ("fileno", fn.txt(root))
            if path == ["value", "port", "stream"]:
                return ("port", fn.txt(root))
    return None


def _fresh_here(fn, root):
    """root is a local whose every definition in fn is the result of an allocation primitive"""
    root = fn.strip(root)
    rn = fn.nodes[root]
    if rn["k"] != "ref" or "d" not in rn or rn["d"] in fn.params:
        return False
    vid = rn["d"]
    defs = []
    for nd in fn.nodes:
        if nd["k"] == "bin" and nd["o"] == "=":
            l = fn.strip(nd["c"][0])
            if fn.nodes[l]["k"] == "ref" and fn.nodes[l].get("d") == vid:
                defs.append(fn.strip(nd["c"][1]))
        elif nd["k"] == "decl" and nd.get("d") == vid and nd.get("c"):
            defs.append(fn.strip(nd["c"][0]))
    return bool(defs) and all(fn.nodes[d]["k"] == "call" and fn.nodes[d].get("o") in ("sexp_alloc_tagged_aux", "sexp_alloc")
                              for d in defs)


def release_once(prog, res):
    stat = res.stat("C16.c", "close/fclose of a fileno's descriptor or a port's stream: dominated by the owner's "
                    "openp test and by the store openp=0 on the same object; refcount discipline", floor=3)
    dec_sites = []
    for fn in prog.all_funcs():
        pos = dom = None
        for i, nd in enumerate(fn.nodes):
            if nd["k"] == "un" and nd["o"] in ("pre--", "post--") or (nd["k"] == "bin" and nd["o"] == "-="):
                x = fn.strip(nd["c"][0])
                if fn.nodes[x]["k"] == "mem":
                    root, path = fn.mempath(x)
                    if path == ["value", "fileno", "count"]:
                        dec_sites.append((fn, i))
            if nd["k"] == "bin" and nd["o"] == "=":
                x = fn.strip(nd["c"][0])
                if fn.nodes[x]["k"] == "mem":
                    root, path = fn.mempath(x)
                    if path == ["value", "port", "fd"] and fn.const_val(nd["c"][1]) is None:
                        # a port takes a share of a fileno: the count of that fileno goes up in the same function
                        stat.sites += 1
                        stat.obligations += 1
                        want = {fn.txt(fn.strip(nd["c"][1])), fn.txt(x)}
                        paired = False
                        for n2 in fn.nodes:
                            if (n2["k"] == "un" and n2["o"] in ("pre++", "post++")) or (n2["k"] == "bin" and n2["o"] == "+="):
                                y = fn.strip(n2["c"][0])
                                if fn.nodes[y]["k"] == "mem":
                                    r2, p2 = fn.mempath(y)
                                    if p2 == ["value", "fileno", "count"] and fn.txt(r2) in want:
                                        paired = True
                        if paired:
                            stat.discharged += 1
                        else:
                            res.add(Finding("C16", "C16.c.refcount-unpaired", fn.name, "port.fd = %s" % fn.txt(nd["c"][1])[:30],
                                            fn.where(i),
                                            "%s stores a fileno into a port without incrementing the fileno's reference count: the "
                                            "port's finalizer decrements a count it never contributed to, so the descriptor is closed "
                                            "while another port (or the fileno object itself) still uses it" % fn.name,
                                            unit=fn.unit.display))
                    if path == ["value", "fileno", "count"] and not _fresh_here(fn, root):
                        stat.sites += 1
                        stat.obligations += 1
                        res.add(Finding("C16", "C16.c.refcount-overwritten", fn.name, "fileno.count = %s" % fn.txt(nd["c"][1])[:30],
                                        fn.where(i),
                                        "%s assigns an absolute value to the reference count of a fileno it did not allocate: the ports "
                                        "that already share the descriptor are forgotten, so the first of them to be closed or collected "
                                        "closes the descriptor under the others (counts of shared objects are only incremented and "
                                        "decremented)" % fn.name, unit=fn.unit.display))
            if nd["k"] != "call" or nd.get("o") not in RELEASERS:
                continue
            args = nd["c"][1:]
            if not args:
                continue
            own = _owner_of(fn, args[RELEASERS[nd["o"]]])
            if own is None:
                continue
            kind, owner = own
            stat.sites += 1
            stat.obligations += 1
            if pos is None:
                pos = elem_positions(fn)
                dom = dominators(fn)
            here = enclosing_elem(fn, i, pos)
            # (1) a dominating store <owner>.openp = 0
            stored = False
            for j, n2 in enumerate(fn.nodes):
                if n2["k"] == "bin" and n2["o"] == "=":
                    lhs = fn.strip(n2["c"][0])
                    if fn.nodes[lhs]["k"] == "mem" and fn.nodes[lhs]["o"] == "openp":
                        root, path = fn.mempath(lhs)
                        if path == ["value", kind, "openp"] and fn.txt(root) == owner and fn.const_val(n2["c"][1]) == 0:
                            pj = enclosing_elem(fn, j, pos)
                            # before the release on every path, or in the same basic block (no exit in between)
                            if dominates(dom, pj, here) or (pj and pj[0] == here[0]):
                                stored = True
            # (2) a dominating true-branch on <owner>.openp
            tested = False
            for b in fn.blocks.values():
                if b.cond is None or len(b.succs) != 2:
                    continue
                for idx in (0, 1):
                    t = b.succs[idx]
                    if t is None or t < 0:
                        continue
                    # the edge b->t must dominate the release: t dominates it and is entered only from b
                    if not (t == here[0] or t in dom.get(here[0], ())) or fn.blocks[t].preds != [b.id]:
                        continue
                    for (a, pol) in implied(fn, b.cond, idx == 0):
                        an = fn.nodes[a]
                        if pol and an["k"] == "mem" and an["o"] == "openp":
                            root, path = fn.mempath(a)
                            if path == ["value", kind, "openp"] and fn.txt(root) == owner:
                                tested = True
            disc = "%s(%s of %s)" % (nd["o"], "fd" if kind == "fileno" else "stream", owner)
            if stored and tested:
                stat.discharged += 1
                stat.sample({"site": fn.where(i), "function": fn.name, "release": disc,
                             "verdict": "guarded by openp test, openp cleared before the release"})
            else:
                why = []
                if not tested:
                    why.append("is not guarded by a test of %s's openp flag" % owner)
                if not stored:
                    why.append("does not clear %s's openp flag first" % owner)
                res.add(Finding("C16", "C16.c.release-not-once", fn.name, disc, fn.where(i),
                                "%s %s: the owner's finalizer (or a second call) releases the same descriptor again, "
                                "possibly after the number was recycled" % (disc, " and ".join(why)),
                                unit=fn.unit.display))
    # every decrement of the shared count observes its zero transition (the operand of a comparison with 0 that
    # guards the release); a decrement that does not is either a leak or a second, unpaired release of a share
    if not dec_sites:
        res.add(Finding("C16", "C16.c.refcount-never-dropped", "-", "fileno.count decrement", "-",
                        "no function decrements the shared fileno reference count: a descriptor shared by ports is never released",
                        unit=""))
    for (fn, i) in dec_sites:
        stat.sites += 1
        stat.obligations += 1
        par = fn.parent(i)
        while par is not None and fn.nodes[par]["k"] in ("paren", "cast"):
            par = fn.parent(par)
        pn = fn.nodes[par] if par is not None else None
        ok = pn is not None and pn["k"] == "bin" and pn["o"] in ("==", "<=", "<", "!=", ">") and \
            any(fn.const_val(c) == 0 for c in pn["c"])
        if not ok:
            # `count -= 1; if (count == 0) ...`: every path from the decrement to the function's exit passes a
            # comparison of that count with zero
            from cfg import reach_without
            posd = elem_positions(fn)
            pd = enclosing_elem(fn, i, posd)
            tests = set()
            for b in fn.blocks.values():
                if b.cond is None:
                    continue
                for m in fn.subtree(b.cond):
                    mn = fn.nodes[m]
                    if mn["k"] == "bin" and mn["o"] in ("==", "<=", "<", "!=", ">") and any(fn.const_val(c) == 0 for c in mn["c"]):
                        for c in mn["c"]:
                            c0 = fn.strip(c)
                            if fn.nodes[c0]["k"] == "mem":
                                _r, p2 = fn.mempath(c0)
                                if p2 == ["value", "fileno", "count"]:
                                    tests.add((b.id, len(b.elems)))
            if pd is not None and tests and not reach_without(fn, pd, (fn.exit, 0), tests):
                ok = True
        if ok:
            stat.discharged += 1
        else:
            res.add(Finding("C16", "C16.c.refcount-decrement-unobserved", fn.name, "fileno.count decrement", fn.where(i),
                            "%s decrements the shared fileno reference count without looking at the result: either the last "
                            "holder's release is lost, or a share is dropped twice and the descriptor is closed under a port "
                            "that still uses it" % fn.name, unit=fn.unit.display))
    return stat


def derived_cpointers(prog, res, floor=3):
    """A non-owning cpointer (freep 0) that wraps memory reached through the C value of another cpointer object
    X - a field of X's struct, the address of an embedded member, the result of a C call on X's value - points
    into storage X's finalizer releases.  It must name X as its parent (the parent slot is traced, C02.R5), or X
    is finalized while the derived pointer is still in use."""
    stat = res.stat("C16.e", "non-owning cpointers derived from another cpointer's C value name that object as parent",
                    floor=floor)
    for fn in prog.all_funcs():
        if not fn.blocks:
            continue
        for i, nd in enumerate(fn.nodes):
            if nd["k"] != "call" or nd.get("o") != "sexp_make_cpointer" or len(nd["c"]) < 6:
                continue
            args = nd["c"][1:]
            val, parent, freep = args[2], args[3], args[4]
            if fn.const_val(freep) != 0:
                continue
            owners = set()
            for m in fn.subtree(val):
                mn = fn.nodes[m]
                if mn["k"] == "mem":
                    root, path = fn.mempath(m)
                    if path[:3] == ["value", "cpointer", "value"] and (fn.type(fn.strip(root)) or "") == "struct sexp_struct *":
                        owners.add(fn.txt(fn.strip(root)))
            if not owners:
                continue
            stat.sites += 1
            stat.obligations += 1
            ptxt = fn.txt(fn.strip(parent))
            if ptxt in owners:
                stat.discharged += 1
                stat.sample({"site": fn.where(i), "function": fn.name, "parent": ptxt})
                continue
            res.add(Finding("C16", "C16.e.derived-pointer-without-parent", fn.name, "from %s" % sorted(owners)[0], fn.where(i),
                            "%s wraps %s - memory reached through the C value of the cpointer object %s - in a non-owning cpointer "
                            "whose parent is %s: nothing keeps %s alive, so its finalizer frees the memory while the derived "
                            "pointer is still reachable" % (fn.name, fn.txt(val)[:60], sorted(owners)[0], ptxt, sorted(owners)[0]),
                            unit=fn.unit.display))
    return stat


def dead_reentry(prog, res, floor=0, units=None):
    """a loop that runs `while (v)` over a cursor leaves with v == NULL; a path from that exit back to the loop's
    head on which v is not assigned again re-enters a loop that cannot iterate.  In sexp_finalize the second pass
    over the heap - the one that finalizes the dynamic libraries after everything that may still need them - was
    such a re-entry: it never ran, and no dlopen handle was ever released"""
    from cfg import reach_without, dominators
    stat = res.stat("C16.f", "no loop over a cursor is re-entered with the cursor exhausted (second passes start over)", floor=floor)
    for fn in prog.all_funcs():
        if not fn.blocks or (units is not None and fn.unit.name not in units):
            continue
        dom = None
        for b in fn.blocks.values():
            if b.cond is None or b.term not in ("ForStmt", "WhileStmt") or len(b.succs) != 2:
                continue
            c = fn.strip(b.cond)
            cn = fn.nodes[c]
            v = None
            if cn["k"] == "ref" and "d" in cn:
                v = cn["d"]
            elif cn["k"] == "bin" and cn["o"] == "!=" and fn.const_val(cn["c"][1]) == 0:
                x = fn.strip(cn["c"][0])
                if fn.nodes[x]["k"] == "ref" and "d" in fn.nodes[x]:
                    v = fn.nodes[x]["d"]
            if v is None or v in fn.params and False:
                continue
            if "*" not in (fn.var_type(v) or ""):
                continue
            exit_b = b.succs[1]
            if exit_b is None or exit_b < 0:
                continue
            # the loop proper: blocks that reach the header again without leaving through the exit edge
            dom = dom or dominators(fn)
            if b.id not in {p for p in fn.blocks[b.id].preds} and not any(b.id in dom.get(p, ()) for p in fn.blocks[b.id].preds):
                continue        # no back edge: not a loop header
            stat.sites += 1
            stat.obligations += 1
            kills = set()
            for j, nd in enumerate(fn.nodes):
                hit = False
                if nd["k"] == "bin" and nd["o"].endswith("=") and nd["o"] not in ("==", "!=", "<=", ">="):
                    l = fn.strip(nd["c"][0])
                    hit = fn.nodes[l]["k"] == "ref" and fn.nodes[l].get("d") == v
                elif nd["k"] == "decl" and nd.get("d") == v:
                    hit = True
                elif nd["k"] == "un" and nd["o"] in ("&", "pre++", "post++", "pre--", "post--"):
                    x = fn.strip(nd["c"][0])
                    hit = fn.nodes[x]["k"] == "ref" and fn.nodes[x].get("d") == v
                if hit:
                    q = enclosing_elem(fn, j, elem_positions(fn))
                    if q:
                        kills.add(q)
            if reach_without(fn, (exit_b, -1), (b.id, 0), kills) and exit_b != b.id:
                res.add(Finding("C16", "C16.f.loop-reentered-exhausted", fn.name, "loop over %s" % fn.vars[v]["n"], fn.where(c),
                                "%s leaves the loop `while (%s)` with %s == NULL and can come back to its head without assigning %s "
                                "again: the second pass runs zero times, so whatever was deferred to it (in sexp_finalize: the "
                                "finalizers of dynamic libraries) never happens" % (fn.name, fn.vars[v]["n"], fn.vars[v]["n"], fn.vars[v]["n"]),
                                unit=fn.unit.display))
            else:
                stat.discharged += 1
    return stat


# ------------------------------------------------------------------ C16.g
def emfile_retry(prog, res, floor=2):
    """descriptor exhaustion is answered by a collection and one retry: a loop whose condition tests
    `errno == EMFILE` (sexp_out_of_file_descriptors) is the collect-and-retry idiom of the file-opening
    primitives.  Constant propagation over the loop's counter (a local with a constant initialiser that only the
    loop condition modifies): with the open failing and errno == EMFILE, the *first* evaluation of the condition is
    true (the retry is taken), and under the counter value it leaves behind, the guard of the `sexp_gc` call inside
    the loop is true (the retry collects first).  Without the retry, dropped unclosed ports are never finalized when
    descriptors run out - the program fails to open a file although nothing reachable holds one."""
    EMFILE = 24
    stat = res.stat("C16.g", "collect-and-retry loops on descriptor exhaustion: the retry is taken on the first EMFILE and "
                    "collects before it opens again (constant propagation over the retry counter)", floor=floor)

    def is_emfile_leaf(fn, n):
        n = fn.strip(n)
        nd = fn.nodes[n]
        if nd["k"] == "bin" and nd["o"] == "==" and isinstance(fn.const_val(nd["c"][1]), int) and "__errno_location" in fn.txt(nd["c"][0]):
            return fn.const_val(nd["c"][1])
        return None

    def ev(fn, n, env, assume):
        """value of expression n under env (var id -> int), side effects applied to env; None if unknown.
        `assume`: unknown leaves of && / || / ! are taken as true (the failing-open scenario)"""
        n = fn.strip(n)
        nd = fn.nodes[n]
        k, o = nd["k"], nd.get("o")
        if "v" in nd and k != "ref":
            return nd["v"]
        if k == "ref":
            if "d" in nd:
                return env.get(nd["d"])
            return nd.get("v")
        if k == "un" and o in ("post++", "post--", "pre++", "pre--"):
            c = fn.strip(nd["c"][0])
            d = fn.nodes[c].get("d") if fn.nodes[c]["k"] == "ref" else None
            if d is None or env.get(d) is None:
                return None
            old = env[d]
            env[d] = old + (1 if "++" in o else -1)
            return old if o.startswith("post") else env[d]
        if k == "un" and o == "!":
            v = ev(fn, nd["c"][0], env, assume)
            return None if v is None else int(not v)
        if k == "bin" and o in ("&&", "||"):
            a = ev(fn, nd["c"][0], env, assume)
            if a is None and assume:
                a = 1
            if a is None:
                return None
            if (o == "&&" and not a) or (o == "||" and a):
                return int(bool(a))
            b = ev(fn, nd["c"][1], env, assume)
            if b is None and assume:
                b = 1
            return None if b is None else int(bool(b))
        if k == "bin" and o in ("==", "!=", "<", ">", "<=", ">="):
            a, b = ev(fn, nd["c"][0], env, assume), ev(fn, nd["c"][1], env, assume)
            if a is None or b is None:
                return None
            return int({"==": a == b, "!=": a != b, "<": a < b, ">": a > b, "<=": a <= b, ">=": a >= b}[o])
        return None
    for fn in prog.all_funcs():
        if not fn.blocks:
            continue
        for b in fn.blocks.values():
            if len(b.succs) != 2 or not b.elems or b.succs[0] is None or b.succs[0] < 0 or b.term not in ("DoStmt", "WhileStmt", "ForStmt"):
                continue
            T = b.elems[-1]
            codes = [is_emfile_leaf(fn, x) for x in fn.subtree(T)]
            codes = [c for c in codes if c is not None]
            if not codes:
                continue
            # is the true edge a back edge (can this block be reached again from it)?
            seen, st = set(), [b.succs[0]]
            while st:
                x = st.pop()
                if x in seen or x is None or x < 0:
                    continue
                seen.add(x)
                st.extend(fn.blocks[x].succs)
            if b.id not in seen:
                continue
            loop = {x for x in seen if x == b.id or _reaches(fn, x, b.id)}
            # the idiom is a retry loop that collects: an errno test in a loop that calls sexp_gc (EINTR loops do not)
            if not any(nd2["k"] == "call" and nd2.get("o") == "sexp_gc" and any(i2 in fn.subtree(e) for x in loop for e in fn.blocks[x].elems[-1:])
                       for i2, nd2 in enumerate(fn.nodes)) and EMFILE not in codes:
                continue
            if EMFILE not in codes:
                stat.sites += 1
                stat.obligations += 1
                res.add(Finding("C16", "C16.g.retry-on-other-errno", fn.name, "errno == %d" % codes[0], fn.where(T),
                                "%s collects and retries when errno == %d, not EMFILE (%d): a process that has used up its own "
                                "descriptors (RLIMIT_NOFILE) gets EMFILE from open/fopen, so the descriptors of dropped ports are "
                                "never released by this loop" % (fn.name, codes[0], EMFILE), unit=fn.unit.display))
                continue
            stat.sites += 1
            stat.obligations += 2
            tnodes = set(fn.subtree(T))
            env = {}
            for i, nd in enumerate(fn.nodes):
                if nd["k"] == "decl" and "d" in nd and nd.get("c") and fn.const_val(nd["c"][0]) is not None:
                    env[nd["d"]] = fn.const_val(nd["c"][0])
            for i, nd in enumerate(fn.nodes):      # a variable modified outside the condition is not a constant
                tgt = None
                if nd["k"] == "bin" and nd["o"].endswith("=") and nd["o"] not in ("==", "!=", "<=", ">="):
                    tgt = fn.strip(nd["c"][0])
                elif nd["k"] == "un" and nd.get("o") in ("post++", "post--", "pre++", "pre--", "&") and i not in tnodes:
                    tgt = fn.strip(nd["c"][0])
                if tgt is not None and fn.nodes[tgt]["k"] == "ref" and fn.nodes[tgt].get("d") in env:
                    del env[fn.nodes[tgt]["d"]]
            first = ev(fn, T, env, True)
            if first == 0:
                res.add(Finding("C16", "C16.g.retry-never-taken", fn.name, "loop condition", fn.where(T),
                                "%s: with the open failing and errno == EMFILE, the first evaluation of the loop condition `%s` "
                                "is false (its counter starts at its initialiser), so the collect-and-retry is never taken: "
                                "descriptors held only by dropped, unclosed ports are not released when the process runs out of them"
                                % (fn.name, fn.txt(T)[:90]), unit=fn.unit.display))
            else:
                stat.discharged += 1
            # the retry collects: a sexp_gc call inside the loop whose guard holds under the counter left behind
            ok, why = False, "no call of sexp_gc inside the retry loop"
            for i, nd in enumerate(fn.nodes):
                if nd["k"] != "call" or nd.get("o") != "sexp_gc":
                    continue
                g = [x for x in loop if i in fn.blocks[x].elems or any(i in fn.subtree(e) for e in fn.blocks[x].elems[-1:])]
                if not g:
                    continue
                G = fn.blocks[g[0]]
                bad = None
                for q in G.preds:
                    Q = fn.blocks[q]
                    if len(Q.succs) == 2 and Q.elems and Q.succs[0] != Q.succs[1]:
                        v = ev(fn, Q.elems[-1], dict(env), False)
                        if v is not None and bool(v) != (Q.succs[0] == G.id):
                            bad = Q.elems[-1]
                if bad is None:
                    ok = True
                else:
                    why = "the guard `%s` of the sexp_gc call is false on the retry" % fn.txt(bad)[:40]
            if ok:
                stat.discharged += 1
                stat.sample({"function": fn.name, "condition": fn.txt(T)[:80], "first_evaluation": first, "where": fn.where(T)})
            else:
                res.add(Finding("C16", "C16.g.retry-without-collection", fn.name, "retry loop", fn.where(T),
                                "%s retries the open on EMFILE, but %s: the retry finds the same descriptors in use"
                                % (fn.name, why), unit=fn.unit.display))
    return stat


def _reaches(fn, a, b):
    seen, st = set(), [a]
    while st:
        x = st.pop()
        if x == b:
            return True
        if x in seen or x is None or x < 0:
            continue
        seen.add(x)
        st.extend(fn.blocks[x].succs)
    return False
