"""C19 - codecs total on hostile input: structural clauses.

a. generated numeric accessors (lib/scheme/bytevector.stub, lib/srfi/160/uvprims.stub):
   every byte-offset access `data(B) + off` of width W is dominated by facts implying
   0 <= off and off + W <= length(B)   (element-indexed uniform-vector accessors:
   0 <= i < uvector-length(X) on the same X)
b. decoder/encoder recursion is bounded (rules/recursion.py instantiated for lib/chibi/json.c)
"""
import tables
from cfg import dominators, elem_positions, enclosing_elem, implied, linform, lin_sub
from kinds import flex_root
from report import Finding
from extract import AnalysisBroken

ACCESSOR_UNITS = ("bytevector.c", "uvprims.c")


def helper_summary(prog, unit, fn, depth=0):
    """{pointer param index: (index param index or None, width, scaled)} for a static helper:
    which pointer parameter is dereferenced at which offset parameter with which width"""
    out = {}
    if depth > 3:
        return out
    pidx = {v: i for i, v in enumerate(fn.params)}

    def param_of(n):
        n = fn.strip(n)
        nd = fn.nodes[n]
        if nd["k"] == "ref" and nd.get("d") in pidx:
            return pidx[nd["d"]]
        return None

    def ptr_plus(n):
        """p  or  p + i  ->  (p index, i index or None)"""
        n = fn.strip(n)
        nd = fn.nodes[n]
        p = param_of(n)
        if p is not None:
            return (p, None)
        if nd["k"] == "bin" and nd["o"] == "+":
            a, b = param_of(nd["c"][0]), param_of(nd["c"][1])
            if a is not None and b is not None:
                ta = fn.var_type(fn.params[a])
                return (a, b) if ta.endswith("*") else (b, a)
        return None

    for i, nd in enumerate(fn.nodes):
        if nd["k"] == "call" and nd.get("o") in ("memcpy", "__builtin_memcpy", "memmove"):
            args = nd["c"][1:]
            w = fn.const_val(args[2]) if len(args) >= 3 else None
            for a in args[:2]:
                pp = ptr_plus(a)
                if pp and w is not None:
                    out[pp[0]] = (pp[1], w, False)
        elif nd["k"] == "idx":
            base = fn.strip(nd["c"][0])
            # ((T*)p)[i]
            inner = base
            p = param_of(inner)
            ii = param_of(nd["c"][1])
            if p is not None and ii is not None:
                ety = fn.type(i) or ""
                w = {"char": 1, "signed char": 1, "unsigned char": 1, "short": 2, "unsigned short": 2, "int": 4,
                     "unsigned int": 4, "long": 8, "unsigned long": 8, "float": 4, "double": 8,
                     "long long": 8, "unsigned long long": 8}.get(ety)
                if w:
                    out[p] = (ii, w, True)
        elif nd["k"] == "call" and nd.get("o"):
            callee = unit.functions.get(nd["o"])
            if callee is not None and callee is not fn and not callee.name.endswith("_stub"):
                sub = helper_summary(prog, unit, callee, depth + 1)
                args = nd["c"][1:]
                for cp, (ci, w, scaled) in sub.items():
                    if cp < len(args):
                        pp = ptr_plus(args[cp])
                        if pp:
                            idx = pp[1]
                            if ci is not None and ci < len(args):
                                idx = param_of(args[ci]) if idx is None else idx
                            out[pp[0]] = (idx, w, scaled)
    return out


def edge_dominating_atoms(fn, here, dom):
    """atoms (node, polarity) of every branch edge that dominates CFG position `here`"""
    out = []
    for b in fn.blocks.values():
        if b.cond is None or len(b.succs) != 2:
            continue
        for idx in (0, 1):
            t = b.succs[idx]
            if t is None or t < 0:
                continue
            if not (t == here[0] or t in dom.get(here[0], ())) or fn.blocks[t].preds != [b.id]:
                continue
            out.extend(implied(fn, b.cond, idx == 0))
    return out


def run_a(prog, res, floor=40):
    stat = res.stat("C19.a", "generated numeric accessors: offset + width <= length of the same bytevector "
                    "(element accessors: 0 <= i < uvector-length) dominates the access", floor=floor)
    for u in prog.units:
        if u.name not in ACCESSOR_UNITS:
            continue
        summaries = {}
        for fn in u.functions.values():
            if not fn.name.endswith("_stub"):
                continue
            pos = dom = None
            for i, nd in enumerate(fn.nodes):
                if nd["k"] != "call" or not nd.get("o"):
                    continue
                callee = u.functions.get(nd["o"])
                if callee is None or callee.name.endswith("_stub"):
                    continue
                args = nd["c"][1:]
                # which argument is the data pointer of an object?
                for ai, a in enumerate(args):
                    root = None
                    for x in fn.subtree(a):
                        r = flex_root(fn, x) if fn.nodes[x]["k"] == "cast" else None
                        if r is not None:
                            root = r
                            break
                    if root is None:
                        continue
                    if callee.name not in summaries:
                        summaries[callee.name] = helper_summary(prog, u, callee)
                    summ = summaries[callee.name].get(ai)
                    if not summ:
                        continue
                    ii, w, scaled = summ
                    if ii is None or ii >= len(args):
                        continue
                    stat.sites += 1
                    stat.obligations += 1
                    if pos is None:
                        pos = elem_positions(fn)
                        dom = dominators(fn)
                    here = enclosing_elem(fn, i, pos)
                    idx_txt = fn.txt(args[ii])
                    root_txt = fn.txt(root)
                    # length expressions that bound this data pointer
                    rn = fn.nodes[fn.strip(root)]
                    owner = None
                    if rn["k"] == "mem":
                        o2, path = fn.mempath(fn.strip(root))
                        if path == ["value", "uvector", "bytes"]:
                            owner = fn.txt(o2)
                    len_bytes = root_txt + "->value.bytes.length"
                    len_elems = (owner + "->value.uvector.length") if owner else None
                    lower = False
                    upper_k = None      # largest k with  idx + k < len  proven
                    upper_elems = False
                    for (a, pol) in edge_dominating_atoms(fn, here, dom):
                        an = fn.nodes[a]
                        if an["k"] != "bin" or an["o"] not in ("<", "<=", ">", ">="):
                            continue
                        o = an["o"]
                        if not pol:
                            o = {"<": ">=", "<=": ">", ">": "<=", ">=": "<"}[o]
                        l, r = an["c"]
                        if o in (">", ">="):
                            l, r = r, l
                            o = "<" if o == ">" else "<="
                        lf_l, lf_r = linform(fn, l, subst=False), linform(fn, r, subst=False)
                        # lower bound:  c < idx  with c >= -1   or  c <= idx with c >= 0
                        if not lf_l[1] and lf_r[1] == {idx_txt: 1}:
                            c = lf_l[0] - lf_r[0]
                            if (o == "<" and c >= -1) or (o == "<=" and c >= 0):
                                lower = True
                        # upper bound:  idx + k  <  len   /  idx + k <= len
                        if lf_l[1] == {idx_txt: 1}:
                            k = lf_l[0] - lf_r[0]
                            if lf_r[1] == {len_bytes: 1}:
                                kk = k if o == "<" else k - 1
                                upper_k = kk if upper_k is None else max(upper_k, kk)
                            if len_elems and lf_r[1] == {len_elems: 1} and ((o == "<" and k >= 0) or (o == "<=" and k >= 1)):
                                upper_elems = True
                    disc = "%s(%s, %s) width %d" % (callee.name, root_txt, idx_txt[:40], w)
                    if scaled and owner:
                        ok = lower and upper_elems
                        need = "0 <= i < uvector-length(%s)" % owner
                    elif scaled:
                        ok = lower and upper_k is not None and w == 1 and upper_k >= 0
                        need = "0 <= i and i < length"
                    else:
                        ok = lower and upper_k is not None and upper_k >= w - 1
                        need = "0 <= off and off + %d <= bytevector-length(%s)" % (w, root_txt)
                    if ok:
                        stat.discharged += 1
                        stat.sample({"site": fn.where(i), "function": fn.name, "access": disc, "requires": need})
                    else:
                        have = []
                        if lower:
                            have.append("0 <= off")
                        if upper_k is not None:
                            have.append("off + %d < length" % upper_k)
                        if upper_elems:
                            have.append("i < uvector-length")
                        res.add(Finding("C19", "C19.a.unchecked-offset", fn.name, disc, fn.where(i),
                                        "%s passes %s and offset %s to %s, which accesses %d byte(s) at that %s; required: %s; "
                                        "dominating checks give only: %s" %
                                        (fn.name, "the data of " + root_txt, idx_txt[:50], callee.name, w,
                                         "element index" if scaled else "byte offset", need, ", ".join(have) or "nothing"),
                                        unit=u.display))
    return stat
