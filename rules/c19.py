"""C19 - codecs total on hostile input: structural clauses.

a. generated numeric accessors (lib/scheme/bytevector.stub, lib/srfi/160/uvprims.stub):
   every byte-offset access `data(B) + off` of width W is dominated by facts implying
   0 <= off and off + W <= length(B)   (element-indexed uniform-vector accessors:
   0 <= i < uvector-length(X) on the same X)
b. decoder/encoder recursion is bounded (rules/recursion.py instantiated for lib/chibi/json.c)
"""
import tables
from cfg import dominators, elem_positions, enclosing_elem, implied, linform, lin_sub
from kinds import flex_root
from report import Finding
from extract import AnalysisBroken

ACCESSOR_UNITS = ("bytevector.c", "uvprims.c")


def helper_summary(prog, unit, fn, depth=0):
    """{pointer param index: (index param index or None, width, scaled)} for a static helper:
    which pointer parameter is dereferenced at which offset parameter with which width"""
    out = {}
    if depth > 3:
        return out
    pidx = {v: i for i, v in enumerate(fn.params)}

    def param_of(n):
        n = fn.strip(n)
        nd = fn.nodes[n]
        if nd["k"] == "ref" and nd.get("d") in pidx:
            return pidx[nd["d"]]
        return None

    def ptr_plus(n):
        """p  or  p + i  ->  (p index, i index or None)"""
        n = fn.strip(n)
        nd = fn.nodes[n]
        p = param_of(n)
        if p is not None:
            return (p, None)
        if nd["k"] == "bin" and nd["o"] == "+":
            a, b = param_of(nd["c"][0]), param_of(nd["c"][1])
            if a is not None and b is not None:
                ta = fn.var_type(fn.params[a])
                return (a, b) if ta.endswith("*") else (b, a)
        return None

    for i, nd in enumerate(fn.nodes):
        if nd["k"] == "call" and nd.get("o") in ("memcpy", "__builtin_memcpy", "memmove"):
            args = nd["c"][1:]
            w = fn.const_val(args[2]) if len(args) >= 3 else None
            for a in args[:2]:
                pp = ptr_plus(a)
                if pp and w is not None:
                    out[pp[0]] = (pp[1], w, False)
        elif nd["k"] == "idx":
            base = fn.strip(nd["c"][0])
            # ((T*)p)[i]
            inner = base
            p = param_of(inner)
            ii = param_of(nd["c"][1])
            if p is not None and ii is not None:
                ety = fn.type(i) or ""
                w = {"char": 1, "signed char": 1, "unsigned char": 1, "short": 2, "unsigned short": 2, "int": 4,
                     "unsigned int": 4, "long": 8, "unsigned long": 8, "float": 4, "double": 8,
                     "long long": 8, "unsigned long long": 8}.get(ety)
                if w:
                    out[p] = (ii, w, True)
        elif nd["k"] == "call" and nd.get("o"):
            callee = unit.functions.get(nd["o"])
            if callee is not None and callee is not fn and not callee.name.endswith("_stub"):
                sub = helper_summary(prog, unit, callee, depth + 1)
                args = nd["c"][1:]
                for cp, (ci, w, scaled) in sub.items():
                    if cp < len(args):
                        pp = ptr_plus(args[cp])
                        if pp:
                            idx = pp[1]
                            if ci is not None and ci < len(args):
                                idx = param_of(args[ci]) if idx is None else idx
                            out[pp[0]] = (idx, w, scaled)
    return out


def edge_dominating_atoms(fn, here, dom):
    """atoms (node, polarity) of every branch edge that dominates CFG position `here`"""
    out = []
    for b in fn.blocks.values():
        if b.cond is None or len(b.succs) != 2:
            continue
        for idx in (0, 1):
            t = b.succs[idx]
            if t is None or t < 0:
                continue
            if not (t == here[0] or t in dom.get(here[0], ())) or fn.blocks[t].preds != [b.id]:
                continue
            out.extend(implied(fn, b.cond, idx == 0))
    return out


def run_a(prog, res, floor=40):
    stat = res.stat("C19.a", "generated numeric accessors: offset + width <= length of the same bytevector "
                    "(element accessors: 0 <= i < uvector-length) dominates the access", floor=floor)
    for u in prog.units:
        if u.name not in ACCESSOR_UNITS:
            continue
        summaries = {}
        for fn in u.functions.values():
            if not fn.name.endswith("_stub"):
                continue
            pos = dom = None
            for i, nd in enumerate(fn.nodes):
                if nd["k"] != "call" or not nd.get("o"):
                    continue
                callee = u.functions.get(nd["o"])
                if callee is None or callee.name.endswith("_stub"):
                    continue
                args = nd["c"][1:]
                # which argument is the data pointer of an object?
                for ai, a in enumerate(args):
                    root = None
                    for x in fn.subtree(a):
                        r = flex_root(fn, x) if fn.nodes[x]["k"] == "cast" else None
                        if r is not None:
                            root = r
                            break
                    if root is None:
                        continue
                    if callee.name not in summaries:
                        summaries[callee.name] = helper_summary(prog, u, callee)
                    summ = summaries[callee.name].get(ai)
                    if not summ:
                        continue
                    ii, w, scaled = summ
                    if ii is None or ii >= len(args):
                        continue
                    stat.sites += 1
                    stat.obligations += 1
                    if pos is None:
                        pos = elem_positions(fn)
                        dom = dominators(fn)
                    here = enclosing_elem(fn, i, pos)
                    idx_txt = fn.txt(args[ii])
                    root_txt = fn.txt(root)
                    # length expressions that bound this data pointer
                    rn = fn.nodes[fn.strip(root)]
                    owner = None
                    if rn["k"] == "mem":
                        o2, path = fn.mempath(fn.strip(root))
                        if path == ["value", "uvector", "bytes"]:
                            owner = fn.txt(o2)
                    len_bytes = root_txt + "->value.bytes.length"
                    len_elems = (owner + "->value.uvector.length") if owner else None
                    lower = False
                    upper_k = None      # largest k with  idx + k < len  proven
                    upper_elems = False
                    for (a, pol) in edge_dominating_atoms(fn, here, dom):
                        an = fn.nodes[a]
                        if an["k"] != "bin" or an["o"] not in ("<", "<=", ">", ">="):
                            continue
                        o = an["o"]
                        if not pol:
                            o = {"<": ">=", "<=": ">", ">": "<=", ">=": "<"}[o]
                        l, r = an["c"]
                        if o in (">", ">="):
                            l, r = r, l
                            o = "<" if o == ">" else "<="
                        lf_l, lf_r = linform(fn, l, subst=False), linform(fn, r, subst=False)
                        # lower bound:  c < idx  with c >= -1   or  c <= idx with c >= 0
                        if not lf_l[1] and lf_r[1] == {idx_txt: 1}:
                            c = lf_l[0] - lf_r[0]
                            if (o == "<" and c >= -1) or (o == "<=" and c >= 0):
                                lower = True
                        # upper bound:  idx + k  <  len   /  idx + k <= len
                        if lf_l[1] == {idx_txt: 1}:
                            k = lf_l[0] - lf_r[0]
                            if lf_r[1] == {len_bytes: 1}:
                                kk = k if o == "<" else k - 1
                                upper_k = kk if upper_k is None else max(upper_k, kk)
                            if len_elems and lf_r[1] == {len_elems: 1} and ((o == "<" and k >= 0) or (o == "<=" and k >= 1)):
                                upper_elems = True
                    disc = "%s(%s, %s) width %d" % (callee.name, root_txt, idx_txt[:40], w)
                    if scaled and owner:
                        ok = lower and upper_elems
                        need = "0 <= i < uvector-length(%s)" % owner
                    elif scaled:
                        ok = lower and upper_k is not None and w == 1 and upper_k >= 0
                        need = "0 <= i and i < length"
                    else:
                        ok = lower and upper_k is not None and upper_k >= w - 1
                        need = "0 <= off and off + %d <= bytevector-length(%s)" % (w, root_txt)
                    if ok:
                        stat.discharged += 1
                        stat.sample({"site": fn.where(i), "function": fn.name, "access": disc, "requires": need})
                    else:
                        have = []
                        if lower:
                            have.append("0 <= off")
                        if upper_k is not None:
                            have.append("off + %d < length" % upper_k)
                        if upper_elems:
                            have.append("i < uvector-length")
                        res.add(Finding("C19", "C19.a.unchecked-offset", fn.name, disc, fn.where(i),
                                        "%s passes %s and offset %s to %s, which accesses %d byte(s) at that %s; required: %s; "
                                        "dominating checks give only: %s" %
                                        (fn.name, "the data of " + root_txt, idx_txt[:50], callee.name, w,
                                         "element index" if scaled else "byte offset", need, ", ".join(have) or "nothing"),
                                        unit=u.display))
    return stat


# ------------------------------------------------------------------ C19.f: JSON string escapes, writer vs reader
JSON_MUST_ESCAPE = {0x22: '"', 0x5C: "\\"}       # a raw quote ends the string, a raw backslash starts an escape


def _case_arms(fn, sw):
    """(case value, blocks of the arm up to its break)"""
    for s in sw.succs:
        if s is None or s < 0:
            continue
        sb = fn.blocks[s]
        if sb.lk != "case" or sb.clo is None or sb.chi not in (None, sb.clo):
            continue
        seen, st = [], [s]
        while st:
            bid = st.pop()
            if bid in seen or len(seen) > 12:
                continue
            seen.append(bid)
            bb = fn.blocks[bid]
            if bb.term == "BreakStmt":
                continue
            for nx in bb.succs:
                if nx is not None and nx >= 0 and fn.blocks[nx].lk not in ("case", "default"):
                    st.append(nx)
        yield sb.clo, [fn.blocks[b] for b in seen]


def json_escape_tables(prog):
    """the writer's and the reader's escape tables, wherever in json.c the switches live: the writer's table is the
    switch whose arms emit two-character strings that start with a backslash, the reader's the switch on an escape
    letter whose arms yield a constant character (stored into the buffer or returned from a helper)"""
    from extract import AnalysisBroken
    funcs = [f for f in prog.all_funcs() if f.blocks and f.unit.name == "json.c"]
    if not funcs:
        raise AnalysisBroken("anchor vanished: lib/chibi/json.c")
    writer, reader = {}, {}
    w = r = None
    wline = rline = None
    for fn in funcs:
        for sw in [b for b in fn.blocks.values() if b.term == "SwitchStmt"]:
            wc, rc = {}, {}
            for val, blocks in _case_arms(fn, sw):
                for bb in blocks:
                    for e in bb.elems:
                        nd = fn.nodes[e]
                        if nd["k"] == "str" and len(nd.get("s", "")) == 2 and nd["s"][0] == "\\":
                            wc[val & 0xFF] = nd["s"][1]
                        v = None
                        if nd["k"] == "bin" and nd["o"] == "=" and fn.nodes[fn.strip(nd["c"][0])]["k"] in ("idx", "ref"):
                            v = fn.const_val(nd["c"][1])
                        elif nd["k"] == "ret" and nd.get("c"):
                            v = fn.const_val(nd["c"][0])
                        if v is not None and 0 < val < 128 and chr(val).isalpha():
                            rc[chr(val)] = v & 0xFF
            if len(wc) > len(writer):
                writer, w, wline = wc, fn, sw.line
            if len(rc) > len(reader) and not wc:
                reader, r, rline = rc, fn, sw.line
    if len(writer) < 3 or len(reader) < 2:
        raise AnalysisBroken("anchor vanished: the escape switches of the JSON string writer / reader")
    return writer, reader, w, r, wline, rline


def run_f(prog, res, floor=4):
    """every escape letter the JSON writer emits is decoded by the reader to the character it stood for (the
    reader's default arm copies the letter itself, which is right only for the quote, the backslash and the
    slash), and the writer escapes the two characters that cannot appear raw inside a JSON string"""
    stat = res.stat("C19.f", "JSON string escapes: reader(writer(c)) = c for every escaped character; quote and backslash are escaped",
                    floor=floor)
    writer, reader, w, r, wline, rline = json_escape_tables(prog)
    for code, letter in sorted(writer.items()):
        stat.sites += 1
        stat.obligations += 1
        back = reader.get(letter, ord(letter))      # default arm: the letter stands for itself
        if back == code:
            stat.discharged += 1
        else:
            res.add(Finding("C19", "C19.f.escape-not-inverted", "json_read_string", "\\%s" % letter, "lib/chibi/json.c:%d" % rline,
                            "the JSON writer emits \\%s for the character %d, but the reader decodes \\%s as %d (%r): "
                            "a string containing that character does not survive json->string / string->json"
                            % (letter, code, letter, back, chr(back)), unit=r.unit.display))
    for code, ch in sorted(JSON_MUST_ESCAPE.items()):
        stat.sites += 1
        stat.obligations += 1
        if code in writer:
            stat.discharged += 1
        else:
            res.add(Finding("C19", "C19.f.raw-%s" % ("quote" if code == 0x22 else "backslash"), "json_write_string", "character %d" % code,
                            "lib/chibi/json.c:%d" % wline,
                            "the JSON writer copies the character %r into the string literal unescaped: the text it emits is "
                            "not the JSON encoding of the string (a quote ends the literal early)" % ch, unit=w.unit.display))
    return stat


# ------------------------------------------------------------------ C19.h
WIDTHS = {"short": 2, "unsigned short": 2, "int": 4, "unsigned int": 4, "float": 4, "long": 8, "unsigned long": 8,
          "long long": 8, "unsigned long long": 8, "double": 8}


def run_h(prog, res, floor=2):
    """a multi-byte unit is loaded only where the whole unit is inside the buffer: in the hand-written helpers of the
    bytevector libraries, a load `*(T*)(p + i)` of w = sizeof(T) > 1 bytes from a byte-pointer parameter p, whose index
    i is bounded by a dominating comparison with a never-assigned parameter L of the same function (`i + k < L`,
    `i + k <= L`), needs the slack of the whole unit: k >= w-1 for `<`, k >= w for `<=`.  `i < len` in front of a
    4-byte load reads up to 3 bytes past a truncated UTF-32 / UTF-16 input and decodes them as a character."""
    from cfg import dominators, elem_positions, enclosing_elem
    stat = res.stat("C19.h", "multi-byte loads at a bounded index of a byte-pointer parameter: the dominating bound leaves room for the "
                    "whole unit", floor=floor)
    for u in prog.units:
        if u.name not in ACCESSOR_UNITS:
            continue
        for fn in u.functions.values():
            if not fn.blocks:
                continue
            assigned = set()
            for nd in fn.nodes:
                if nd["k"] == "bin" and nd["o"].endswith("=") and nd["o"] not in ("==", "!=", "<=", ">="):
                    l = fn.strip(nd["c"][0])
                    if fn.nodes[l]["k"] == "ref" and "d" in fn.nodes[l]:
                        assigned.add(fn.nodes[l]["d"])
                elif nd["k"] == "un" and nd.get("o") in ("post++", "post--", "pre++", "pre--", "&"):
                    l = fn.strip(nd["c"][0])
                    if fn.nodes[l]["k"] == "ref" and "d" in fn.nodes[l]:
                        assigned.add(fn.nodes[l]["d"])
            pos = dom = None
            for i, nd in enumerate(fn.nodes):
                if nd["k"] != "un" or nd.get("o") != "*" or not nd.get("c"):
                    continue
                c = nd["c"][0]
                while fn.nodes[c]["k"] == "paren":
                    c = fn.nodes[c]["c"][0]
                if fn.nodes[c]["k"] != "cast":
                    continue
                w = WIDTHS.get((u.types[nd["t"]] or "").replace("const ", "").strip()) if nd.get("t") is not None else None
                if not w or w < 2:
                    continue
                inner = fn.strip(fn.nodes[c]["c"][0])
                ind = fn.nodes[inner]
                if ind["k"] != "bin" or ind["o"] != "+":
                    continue
                a, b = fn.strip(ind["c"][0]), fn.strip(ind["c"][1])
                if fn.nodes[a]["k"] != "ref" or fn.nodes[a].get("d") not in fn.params or fn.nodes[b]["k"] != "ref" or "d" not in fn.nodes[b]:
                    continue
                iv = fn.nodes[b]["d"]
                if pos is None:
                    pos, dom = elem_positions(fn), dominators(fn)
                here = enclosing_elem(fn, i, pos)
                if here is None:
                    continue
                bounds = []
                for (atom, pol) in edge_dominating_atoms(fn, here, dom):
                    an = fn.nodes[fn.strip(atom)]
                    if an["k"] != "bin" or an["o"] not in ("<", "<=", ">", ">="):
                        continue
                    op = an["o"] if pol else {"<": ">=", "<=": ">", ">": "<=", ">=": "<"}[an["o"]]
                    lhs, rhs = fn.strip(an["c"][0]), fn.strip(an["c"][1])
                    if op in (">", ">="):
                        lhs, rhs, op = rhs, lhs, {">": "<", ">=": "<="}[op]
                    # lhs: i or i + k ; rhs: a never-assigned parameter
                    k = None
                    ln = fn.nodes[lhs]
                    if ln["k"] == "ref" and ln.get("d") == iv:
                        k = 0
                    elif ln["k"] == "bin" and ln["o"] == "+":
                        x, y = fn.strip(ln["c"][0]), fn.strip(ln["c"][1])
                        if fn.nodes[x]["k"] == "ref" and fn.nodes[x].get("d") == iv and fn.const_val(y) is not None:
                            k = fn.const_val(y)
                    rn = fn.nodes[rhs]
                    if k is None or rn["k"] != "ref" or rn.get("d") not in fn.params or rn.get("d") in assigned:
                        continue
                    bounds.append((op, k, atom))
                if not bounds:
                    continue
                stat.sites += 1
                stat.obligations += 1
                if any((op == "<" and k >= w - 1) or (op == "<=" and k >= w) for (op, k, _a) in bounds):
                    stat.discharged += 1
                    stat.sample({"function": fn.name, "load": fn.txt(i)[:40], "width": w, "where": fn.where(i)}, limit=6)
                else:
                    op, k, atom = bounds[0]
                    res.add(Finding("C19", "C19.h.unit-load-past-bound", fn.name, "%d-byte load at %s" % (w, fn.txt(inner)[:30]), fn.where(i),
                                    "%s loads a %d-byte unit at `%s`, and the only bound on the index that dominates the load is `%s`: "
                                    "with a buffer whose length is not a multiple of the unit the last load reads up to %d bytes past "
                                    "its end and decodes them (a truncated UTF-16 / UTF-32 input yields a bogus extra character)"
                                    % (fn.name, w, fn.txt(inner)[:30], fn.txt(atom)[:40], w - 1), unit=fn.unit.display))
    return stat


# ------------------------------------------------------------------ C19.i
BITS = {"unsigned short": 16, "short": 16, "unsigned char": 8, "char": 8, "signed char": 8}


def run_i(prog, res, floor=0, units=None):
    """a constant that cannot survive the store: an assignment to a variable of an 8- or 16-bit integer type whose
    right-hand side adds (or ors) a constant >= 2^bits of that type.  The store keeps the low bits only, so the
    constant is a no-op - the author meant a wider value.  In the UTF-16 decoder this is the supplementary-plane
    base 0x10000 added into a uint16_t: every character above U+FFFF decodes to its low 16 bits."""
    units = units or ACCESSOR_UNITS
    stat = res.stat("C19.i", "assignments to 8/16-bit integer variables in the codec units: no added constant exceeds the variable's range",
                    floor=floor)
    for u in prog.units:
        if u.name not in units:
            continue
        for fn in u.functions.values():
            if not fn.blocks:
                continue
            for i, nd in enumerate(fn.nodes):
                if nd["k"] != "bin" or nd["o"] not in ("=", "+=", "|="):
                    continue
                l = fn.strip(nd["c"][0])
                ln = fn.nodes[l]
                if ln["k"] != "ref" or "d" not in ln:
                    continue
                bits = BITS.get((u.types[fn.vars[ln["d"]]["t"]] or "").replace("const ", "").strip())
                if not bits:
                    continue
                terms, st = [], [nd["c"][1]]
                while st:
                    x = fn.strip(st.pop())
                    xn = fn.nodes[x]
                    if xn["k"] == "bin" and xn["o"] in ("+", "|"):
                        st.extend(xn["c"])
                    else:
                        terms.append(x)
                if len(terms) < 2 and nd["o"] == "=":
                    continue
                stat.sites += 1
                stat.obligations += 1
                big = [t for t in terms if isinstance(fn.const_val(t), int) and fn.nodes[t]["k"] != "ref" and fn.const_val(t) >= (1 << bits)]
                if not big:
                    stat.discharged += 1
                    stat.sample({"function": fn.name, "store": fn.txt(i)[:60], "bits": bits}, limit=4)
                else:
                    res.add(Finding("C19", "C19.i.constant-lost-in-narrow-store", fn.name, "%s" % fn.vars[ln["d"]]["n"], fn.where(i),
                                    "%s adds the constant %#x into `%s`, a %d-bit variable: the store keeps the low %d bits, so the "
                                    "constant is lost - in the UTF-16 decoder every character above U+FFFF (a surrogate pair) decodes "
                                    "to its low 16 bits (U+1F600 -> U+F600)"
                                    % (fn.name, fn.const_val(big[0]), fn.vars[ln["d"]]["n"], bits, bits), unit=fn.unit.display))
    return stat
