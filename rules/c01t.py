"""C01.t - operand balance of inlined opcode applications.

generate_opcode_app pushes one value per operand of the application and then emits the opcode's instruction, which
pops a fixed number of them unless the arm of the class switch loops over the operand count (the folded classes).
The compile-time depth bookkeeping assumes every operand was popped; surplus operands stay on the VM stack, the
recorded maximum depth of the bytecode is too small and sexp_ensure_stack admits pushes past the end of the stack
object.  So: where the analyzer builds an application whose head is still the opcode object, every path from the opcode tag test to that
construction replaces the head by a variable reference, or has established `operand count <= num_args + 1`
(the one optional operand), or has established that the class is one of the folded ones."""
import tables
from cfg import implied, linform, lin_sub, local_defs
from report import Finding
from extract import AnalysisBroken

NEG = {"<": ">=", "<=": ">", ">": "<=", ">=": "<", "==": "!=", "!=": "=="}
SWAP = {"<": ">", "<=": ">=", ">": "<", ">=": "<=", "==": "==", "!=": "!="}


def folded_classes(prog):
    """classes whose arm in generate_opcode_app's class switch contains a loop (the emission depends on the
    operand count), read from the code; also the switch's location"""
    fn = prog.func("generate_opcode_app")
    if fn is None:
        raise AnalysisBroken("anchor vanished: generate_opcode_app")
    best = None
    for b in fn.blocks.values():
        if b.term != "SwitchStmt" or b.cond is None:
            continue
        c = fn.strip(b.cond)
        txt = fn.txt(c)
        if fn.nodes[c]["k"] == "ref" and "d" in fn.nodes[c] and fn.nodes[c]["d"] not in fn.params:
            defs = local_defs(fn, fn.nodes[c]["d"])       # a local that caches the class
            if len(defs) == 1 and defs[0][1] is not None:
                txt = fn.txt(defs[0][1])
        if "op_class" in txt:
            best = b
    if best is None:
        raise AnalysisBroken("anchor vanished: the switch on the opcode class in generate_opcode_app")
    folded = set()
    arms = 0
    for s in best.succs:
        if s is None or s < 0:
            continue
        sb = fn.blocks[s]
        if sb.lk != "case" or sb.clo is None:
            continue
        arms += 1
        seen, st = set(), [s]
        while st:
            bid = st.pop()
            if bid in seen:
                continue
            seen.add(bid)
            bb = fn.blocks[bid]
            if bb.term == "BreakStmt":
                continue
            for nx in bb.succs:
                if nx is not None and nx >= 0 and fn.blocks[nx].lk not in ("case", "default"):
                    st.append(nx)
        cyc = _has_cycle(fn, seen, s)
        if not cyc:
            # the loop over the operands may live in a helper of the same unit that is handed an integer local
            for bid in seen:
                for e in fn.blocks[bid].elems:
                    nd = fn.nodes[e]
                    g = prog.func(nd.get("o") or "") if nd["k"] == "call" else None
                    if g is None or not g.blocks or g.unit.name != fn.unit.name or g.name == fn.name:
                        continue
                    int_arg = any(fn.nodes[fn.strip(a)]["k"] == "ref" and fn.nodes[fn.strip(a)].get("d") is not None
                                  and fn.nodes[fn.strip(a)]["d"] not in fn.params
                                  and (fn.var_type(fn.nodes[fn.strip(a)]["d"]) or "") in ("int", "long", "sexp_sint_t", "sexp_uint_t", "unsigned long")
                                  for a in nd["c"][1:])
                    if int_arg and _has_cycle(g, set(g.blocks), g.entry):
                        cyc = True
        if cyc:
            for v in range(sb.clo, (sb.chi if sb.chi is not None else sb.clo) + 1):
                folded.add(v)
    if arms < 3:
        raise AnalysisBroken("the class switch of generate_opcode_app has %d case arms" % arms)
    return folded, fn.where(best.cond)


def _makes_head(prog, callee, ai, depth=0):
    """argument #ai of `callee` becomes the car of a fresh pair (sexp_cons itself, or a helper that conses it),
    or is handed to the opcode generator"""
    if callee == "sexp_cons_op":         # sexp_cons(ctx, a, b) is sexp_cons_op(ctx, NULL, 2, a, b)
        return ai == 3
    if callee == "generate_opcode_app":
        return True
    g = prog.func(callee or "")
    if g is None or not g.blocks or depth > 1 or ai >= len(g.params):
        return False
    pn = g.vars[g.params[ai]]["n"]
    for nd in g.nodes:
        if nd["k"] == "call":
            for bi, b in enumerate(nd["c"][1:]):
                if g.txt(g.strip(b)) == pn and _makes_head(prog, nd.get("o"), bi, depth + 1):
                    return True
    return False


def _decided_by(fn, b):
    """the operand that decides a short-circuit condition in this block: for `L && R` / `L || R` whose left operand
    was evaluated in an earlier block, the value of the condition on this block's edges is the value of R"""
    c = fn.strip(b.cond)
    el = set(b.elems)
    while True:
        nd = fn.nodes[c]
        if nd["k"] == "bin" and nd["o"] in ("&&", "||"):
            l, r = fn.strip(nd["c"][0]), fn.strip(nd["c"][1])
            if l not in el and not (set(fn.subtree(l)) & el):
                c = r
                continue
        return c


def _has_cycle(fn, blocks, start):
    color = {}

    def visit(b):
        color[b] = 1
        if fn.blocks[b].term != "BreakStmt":
            for nx in fn.blocks[b].succs:
                if nx is None or nx < 0 or nx not in blocks:
                    continue
                if color.get(nx) == 1 or (color.get(nx) is None and visit(nx)):
                    return True
        color[b] = 2
        return False
    return visit(start)


def _num_args_term(terms, var_txt):
    for t, c in terms.items():
        if t.endswith("opcode.num_args") and t.startswith(var_txt + "->"):
            return t, c
    return None, 0


def _bounding(fn, atom, pol, var_txt, folded, prog, depth=0):
    """does `atom == pol` establish count <= num_args(var)+1, or class(var) in folded, in every case it leaves
    open?  A conjunction that holds establishes what either operand does; a disjunction that holds is a case
    split and every operand has to; dually when they fail."""
    atom = fn.strip(atom)
    nd = fn.nodes[atom]
    if nd["k"] == "un" and nd["o"] == "!":
        return _bounding(fn, nd["c"][0], not pol, var_txt, folded, prog, depth)
    if nd["k"] == "bin" and nd["o"] in ("&&", "||"):
        parts = [_bounding(fn, c, pol, var_txt, folded, prog, depth) for c in nd["c"]]
        return any(parts) if (nd["o"] == "&&") == pol else all(parts)
    if nd["k"] == "cond" and len(nd.get("c", ())) == 3:
        return all(_bounding(fn, c, pol, var_txt, folded, prog, depth) for c in nd["c"][1:])
    if nd["k"] == "bin" and nd["o"] in ("==", "!=") and any(fn.const_val(c) == 0 for c in nd["c"]):
        sub = nd["c"][1] if fn.const_val(nd["c"][0]) == 0 else nd["c"][0]
        if fn.nodes[fn.strip(sub)]["k"] in ("call", "un", "bin", "cond") and fn.nodes[fn.strip(sub)].get("o") not in ("+", "-", "*", "/", "&", "|"):
            return _bounding(fn, sub, pol if nd["o"] == "!=" else not pol, var_txt, folded, prog, depth)
    if nd["k"] == "bin" and nd["o"] in NEG:
        o = nd["o"] if pol else NEG[nd["o"]]
        l, r = nd["c"]
        # class tests
        for a, b in ((l, r), (r, l)):
            ta = fn.txt(fn.strip(a))
            if ta == var_txt + "->value.opcode.op_class":
                v = fn.const_val(b)
                return o == "==" and v is not None and v in folded
        la, lb = linform(fn, l), linform(fn, r)
        if la is None or lb is None:
            return False
        d = lin_sub(la, lb)          # lhs - rhs  o  0
        t, c = _num_args_term(d[1], var_txt)
        if t is None or abs(c) != 1 or len(d[1]) < 2:
            return False
        if c == 1:                   # num_args on the left: negate
            d = (-d[0], {k: -v for k, v in d[1].items()})
            o = SWAP[o]
        # now  X - N + k  o  0   with X the remaining terms:  X o N - k
        k = d[0]
        others = [v for kk, v in d[1].items() if kk != t]
        if any(v != 1 for v in others) or len(others) != 1:
            return False
        cst = -k
        if o in ("<=", "=="):
            return cst <= 1
        if o == "<":
            return cst <= 2
        return False
    if nd["k"] == "call" and depth < 2:
        g = prog.func(nd.get("o") or "")
        if g is None or not g.blocks:
            return False
        rets = [x for x in g.nodes if x["k"] == "ret" and x.get("c")]
        if not rets:
            return False
        # which parameter receives the opcode variable
        pv = None
        for ai, a in enumerate(nd["c"][1:]):
            if fn.txt(fn.strip(a)) == var_txt and ai < len(g.params):
                pv = g.vars[g.params[ai]]["n"]
        if pv is None:
            return False
        if len(rets) == 1:
            return _bounding(g, rets[0]["c"][0], pol, pv, folded, prog, depth + 1)
        return _helper_establishes(g, pol, pv, folded, prog, depth + 1)
    return False


def _helper_establishes(g, pol, pv, folded, prog, depth):
    """a predicate helper with several returns: every path from its entry to a return whose value can equal `pol`
    crosses a bounding edge, or the returned expression establishes the bound itself"""
    seen, st = set(), [g.entry]
    while st:
        bid = st.pop()
        if bid in seen:
            continue
        seen.add(bid)
        b = g.blocks[bid]
        done = False
        for e in b.elems:
            nd = g.nodes[e]
            if nd["k"] == "ret" and nd.get("c"):
                v = g.const_val(nd["c"][0])
                if v is not None:
                    if bool(v) == pol:
                        return False
                elif not _bounding(g, nd["c"][0], pol, pv, folded, prog, depth):
                    return False
                done = True
                break
            if nd["k"] == "bin" and nd["o"] == "=" and g.txt(g.strip(nd["c"][0])) == pv:
                return False
        if done:
            continue
        for si, s in enumerate(b.succs):
            if s is None or s < 0:
                continue
            if b.cond is not None and len(b.succs) == 2 and _bounding(g, _decided_by(g, b), si == 0, pv, folded, prog, depth):
                continue
            st.append(s)
    return True


def run(prog, res, floor=1):
    stat = res.stat("C01.t", "an application that keeps an opcode as its head has at most num_args+1 operands unless the "
                    "opcode's class is folded by the generator", floor=floor)
    folded, sw_where = folded_classes(prog)
    rows, _ = tables.opcode_rows(prog)
    affected = [r for r in rows if r["flags"] & 1 and r["op_class"] not in folded]
    if len(affected) < 10:
        raise AnalysisBroken("only %d opcodes[] rows are flagged variadic outside the folded classes" % len(affected))
    sites = 0
    opcode_tag = dict((n, v) for n, v in tables.enum_values(prog, const_prefix="SEXP_OPCODE")).get("SEXP_OPCODE")
    if opcode_tag is None:
        raise AnalysisBroken("anchor vanished: SEXP_OPCODE")
    for fn in prog.all_funcs():
        if fn.unit.name != "eval.c" or not fn.blocks:
            continue
        # variables V of this function whose num_args is compared somewhere: the opcode under analysis
        cand = set()
        for i, nd in enumerate(fn.nodes):
            if nd["k"] == "mem" and fn.txt(i).endswith("->value.opcode.num_args"):
                cand.add(fn.txt(i)[:-len("->value.opcode.num_args")])
        for var_txt in sorted(cand):
            targets = []
            for b in fn.blocks.values():
                for ei, e in enumerate(b.elems):
                    nd = fn.nodes[e]
                    if nd["k"] != "call":
                        continue
                    for ai, a in enumerate(nd["c"][1:]):
                        if fn.txt(fn.strip(a)) == var_txt and _makes_head(prog, nd.get("o"), ai):
                            targets.append((b.id, ei, e))
            # the paths start where the variable is known to be an opcode object: the true edges of its tag test.
            # From there on an assignment to it drops the opcode (the analyzer substitutes a variable reference)
            starts = []
            for b in fn.blocks.values():
                if b.cond is None or len(b.succs) != 2 or b.succs[0] is None or b.succs[0] < 0:
                    continue
                for a, p in implied(fn, b.cond, True):
                    nd = fn.nodes[a]
                    if p and nd["k"] == "bin" and nd["o"] == "==" and any(
                            fn.txt(fn.strip(nd["c"][x])) == var_txt + "->tag" and fn.const_val(nd["c"][1 - x]) == opcode_tag
                            for x in (0, 1)):
                        starts.append(b.succs[0])
            if not starts:
                continue
            plain, stp = set(), list(starts)
            while stp:
                x = stp.pop()
                if x in plain:
                    continue
                plain.add(x)
                stp.extend(y for y in fn.blocks[x].succs if y is not None and y >= 0)
            for (tb, tei, te) in targets:
                if tb not in plain:
                    continue
                sites += 1
                stat.sites += 1
                stat.obligations += 1
                # DFS from the entry; pruned at bounding edges and at assignments to the variable
                seen = set()
                st = [(s0, None) for s0 in starts]
                bad = None
                parent = {}
                while st and bad is None:
                    bid, frm = st.pop()
                    if bid in seen:
                        continue
                    seen.add(bid)
                    parent[bid] = frm
                    b = fn.blocks[bid]
                    killed = False
                    for ei, e in enumerate(b.elems):
                        if bid == tb and ei == tei:
                            bad = bid
                            break
                        nd = fn.nodes[e]
                        if nd["k"] == "bin" and nd["o"] == "=" and fn.txt(fn.strip(nd["c"][0])) == var_txt:
                            killed = True
                            break
                    if bad is not None or killed:
                        continue
                    for si, s in enumerate(b.succs):
                        if s is None or s < 0:
                            continue
                        if b.cond is not None and len(b.succs) == 2:
                            if _bounding(fn, _decided_by(fn, b), si == 0, var_txt, folded, prog):
                                continue
                        st.append((s, bid))
                if bad is None:
                    stat.discharged += 1
                    stat.sample({"site": fn.where(te), "function": fn.name, "opcode variable": var_txt,
                                 "folded classes": sorted(folded), "class switch": sw_where,
                                 "opcodes with one optional operand": len(affected)})
                else:
                    path, x = [], bad
                    while x is not None and len(path) < 40:
                        path.append(x)
                        x = parent.get(x)
                    lines = [fn.blocks[p].line for p in reversed(path) if fn.blocks[p].line]
                    res.add(Finding("C01", "C01.t.surplus-operands-inlined", fn.name, "%s(%s)" % (fn.nodes[te].get("o"), var_txt),
                                    fn.where(te), "%s builds an application whose head is the opcode object %s on a path that neither "
                                    "replaces the head by a variable reference nor bounds the operand count by num_args+1 nor "
                                    "establishes a folded class (%s): %d opcodes[] rows take one optional operand and their "
                                    "instruction pops a fixed number of values, so surplus operands stay on the VM stack while the "
                                    "depth bookkeeping counts them as popped, and pushes run past the ensured stack size"
                                    % (fn.name, var_txt, ", ".join(str(v) for v in sorted(folded)) or "none", len(affected)),
                                    unit=fn.unit.display, path=["%s:%d" % (fn.unit.display, l) for l in lines[-12:]]))
    if not sites:
        raise AnalysisBroken("anchor vanished: no opcode application is constructed in eval.c")
    return stat
