import extract
import callgraph
from rules import c15, recursion, common


def run(res, tier, replay=None):
    prog = extract.load_program("default")
    res.functions = sum(1 for _ in prog.all_funcs())
    c15.run_a(prog, res)
    c15.run_c(prog, res)
    c15.run_d(prog, res)
    c15.run_e(prog, res)
    c15.run_f(prog, res)
    c15.run_g(prog, res)
    cg = callgraph.CallGraph(prog)
    recursion.run(prog, res, "C15", "C15.b", roots=["sexp_equalp_op", "sexp_hash"], floor=2, cg=cg)
    res.assumptions = common.ASSUMPTIONS
    res.explanation = (
        "C15 structural clauses: (a) kind-set dataflow over sexp_equalp_bound and hash_one: the heap tags for which equal? "
        "returns through a semantic comparator (bignum value compare, flonum eqv) are disjoint from the tags whose raw "
        "trailing bytes hash_one hashes - otherwise two equal? values hash differently; (b) the recursion of both functions "
        "passes through a verified depth bound; (c) hash_one folds a value's machine word into the hash only where the value is an immediate (never a heap address); (d) the C hash-table primitives update the size slot on exactly the paths that link/unlink a chain entry. (e) sexp_equalp_bound writes every recursive call's result back into its work budget. (g) a chain walk in lib/srfi/69/hash.c that advances its cursor through a field of the current cell is not reached by a store to that field of the cursor (the resize relinking cells in place would drop every entry of a bucket but the first). Not decided: hash-table operation histories, (chibi equiv), eqv? on numbers.")
    if tier == "thorough":
        common.thorough_mutations(res, "C15", {
            "C15.a": lambda p, r: c15.run_a(p, r),
            "C15.c": lambda p, r: c15.run_c(p, r),
            "C15.d": lambda p, r: c15.run_d(p, r),
            "C15.e": lambda p, r: c15.run_e(p, r, floor=0),
            "C15.f": lambda p, r: c15.run_f(p, r, floor=0),
            "C15.g": lambda p, r: c15.run_g(p, r, floor=0),
            "C15.b": lambda p, r: recursion.run(p, r, "C15", "C15.b", roots=["sexp_equalp_op", "sexp_hash"], floor=0),
        })
