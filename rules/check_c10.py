import extract
from rules import f3, c10e, common


def run(res, tier, replay=None):
    prog = extract.load_program("default")
    res.functions = sum(1 for _ in prog.all_funcs())
    f3.c10a_alloc_sites(prog, res)
    f3.c10b_length_writers(prog, res)
    f3.c10c_heap_sizes(prog, res)
    f3.c10d_heap_walk_bounds(prog, res)
    c10e.run(prog, res, floor=40)
    # (d) the marker's view of each type: traced range = the reference fields, traced count = the live slots
    f3.r5_type_table(prog, res, prop="C10")
    res.assumptions = common.ASSUMPTIONS
    res.explanation = ("C10 structural clauses: (a) every allocation site's size expression equals the extent the "
                       "sweeper recomputes from the type row and the stored length field (linear forms over "
                       "constant-evaluated sizes; fixed rows compared after 32-byte chunk alignment); (b) size-determining "
                       "length fields are written only on an object allocated earlier in the same function; (c) every sexp_make_heap call passes a size that is provably a multiple of the allocation granule (abstract evaluation of the size expression: align masks, aligned sums, integer multiples, ceil). (d) type rows vs record layout (shared with C02.R5): the traced range is exactly the reference fields and the traced slot count of a variable-length type is its live-slot counter (the stack's top, not its capacity: stale slots would keep garbage alive). (e) every walk over the objects of a heap segment (sweep, finalize, weak-reference reset, statistics) runs while p < h->data + h->size exactly; a size computed into a local before the allocation is compared with the values its variables have at the allocation. Not decided: "
                       "(e) sexp_alloc returns the shared out-of-memory exception object when the heap cannot grow (read from its code, closed under functions that return such a result): a store through the result of such a call - directly or through a pointer local derived from it - is preceded on every path by a test that excludes the exception object; results of the allocator layer are followed in every unit, results of every constructor in vm.c. "
                       "coalescing arithmetic of sexp_sweep, free-list order, growth policy, boundedness of heap size.")
    if tier == "thorough":
        common.config_matrix(res, lambda p, r: (f3.c10a_alloc_sites(p, r), f3.c10b_length_writers(p, r)), violation=False)
        common.thorough_mutations(res, "C10", {
            "C10.a": lambda p, r: f3.c10a_alloc_sites(p, r),
            "C10.b": lambda p, r: f3.c10b_length_writers(p, r),
            "C10.c": lambda p, r: f3.c10c_heap_sizes(p, r),
            "C10.d": lambda p, r: f3.c10d_heap_walk_bounds(p, r, floor=0),
            "C10.e": lambda p, r: c10e.run(p, r, floor=0),
            "C10.R5": lambda p, r: f3.r5_type_table(p, r, prop="C10"),
        })
