"""C02 - GC never reclaims or corrupts reachable data: structural clauses.

R1  root-link pairing (typestate over the per-function CFG)
"""
from cfg import PathExplorer, edge_atoms, assigned_vars, return_node, implied
from report import Finding

GCVAR_T = "struct sexp_gc_var_t"


def _saves_store(fn, n):
    """if node n is `<ctx>->...saves = RHS` return (ctx_text, rhs) else None"""
    nd = fn.nodes[n]
    if nd["k"] != "bin" or nd["o"] != "=":
        return None
    lhs = fn.strip(nd["c"][0])
    if fn.nodes[lhs]["k"] != "mem" or fn.nodes[lhs]["o"] != "saves":
        return None
    root, path = fn.mempath(lhs)
    if path[-2:] != ["context", "saves"]:
        return None
    return fn.txt(root), fn.strip(nd["c"][1])


def link_event(fn, n):
    """('link', var, ctx) / ('unlink', var, ctx) / None for CFG element n"""
    r = _saves_store(fn, n)
    if not r:
        return None
    ctx, rhs = r
    rn = fn.nodes[rhs]
    if rn["k"] == "un" and rn["o"] == "&":
        x = fn.strip(rn["c"][0])
        xn = fn.nodes[x]
        if xn["k"] == "ref" and "d" in xn and fn.var_type(xn["d"]) == GCVAR_T:
            return ("link", xn["d"], ctx)
    if rn["k"] == "mem" and rn["o"] == "next" and not rn.get("ar"):
        x = fn.strip(rn["c"][0])
        xn = fn.nodes[x]
        if xn["k"] == "ref" and "d" in xn and fn.var_type(xn["d"]) == GCVAR_T:
            return ("unlink", xn["d"], ctx)
    return None


def stable_conditions(fn):
    """canonical texts of branch conditions that occur at least twice and only
    mention variables never assigned in the function (and no calls)"""
    assigned = assigned_vars(fn)
    count = {}
    for b in fn.blocks.values():
        if b.cond is None or b.term not in ("IfStmt", "&&", "||", "?:"):
            continue
        for (a, _pol) in implied(fn, b.cond, True):
            if fn.calls_in(a):
                continue
            refs = fn.refs_in(a)
            if not refs or refs & assigned:
                continue
            # only direct variable tests, no memory reads that could change
            if any(fn.nodes[x]["k"] in ("mem", "idx") or
                   (fn.nodes[x]["k"] == "un" and fn.nodes[x]["o"] == "*") for x in fn.subtree(a)):
                continue
            t = fn.txt(a)
            count.setdefault(t, set()).add(b.id)
    return {t for t, bs in count.items() if len(bs) >= 2}


def r1_function(fn, res, stat, prop="C02"):
    """typestate: stack of linked root nodes on every path"""
    events = {}
    for b in fn.blocks.values():
        for e in b.elems:
            ev = link_event(fn, e)
            if ev:
                events[e] = ev
    stat.sites += 1
    if not events:
        return
    stat.obligations += 1
    stat.nontrivial.add((fn.file, fn.name))
    stable = stable_conditions(fn)
    found = []

    def report(rule, disc, node, msg, key=None, extra=None):
        path = ex.path_to(key) if key else None
        found.append(Finding(prop, rule, fn.name, disc, fn.where(node), msg,
                             unit=fn.unit.display, config=fn.unit.config,
                             path=["B%s" % p for p in path] if path else None, extra=extra))

    cur = {"key": None}

    def transfer(bid, e, st):
        ev = events.get(e)
        if not ev:
            return None
        stack, conds = st
        kind, var, ctx = ev
        name = fn.vars[var]["n"]
        if kind == "link":
            if any(v == var for (v, _c) in stack):
                report("R1.double-link", "link " + name, e,
                       "root node %s linked while already linked (cycle in ctx->saves)" % name)
                return [st]
            return [(stack + ((var, ctx),), conds)]
        else:
            idx = [i for i, (v, _c) in enumerate(stack) if v == var]
            if not idx:
                report("R1.unlink-unlinked", "unlink " + name, e,
                       "release through %s.next on a path where %s was never linked: stores its initial "
                       "NULL into ctx->saves and drops every caller's roots" % (name, name))
                return [st]
            i = idx[-1]
            if stack[i][1] != ctx:
                report("R1.context-mismatch", "unlink %s on %s" % (name, ctx), e,
                       "root node %s linked on %s but released on %s" % (name, stack[i][1], ctx))
            return [(stack[:i], conds)]

    def branch(bid, i, succ, st):
        if not stable:
            return st
        stack, conds = st
        atoms = edge_atoms(fn, bid, i)
        if not atoms:
            return st
        cd = dict(conds)
        for (a, pol) in atoms:
            t = fn.txt(a)
            if t in stable:
                if t in cd and cd[t] != pol:
                    return None
                cd[t] = pol
        return (stack, tuple(sorted(cd.items())))

    def at_exit(bid, st, key):
        stack, conds = st
        if stack:
            rn = return_node(fn, bid)
            names = [fn.vars[v]["n"] for (v, _c) in stack]
            rtxt = fn.txt(rn) if rn is not None else "fall off end"
            if len(rtxt) > 120:
                rtxt = rtxt[:117] + "..."
            report("R1.return-with-linked-root", rtxt, rn if rn is not None else None,
                   "returns with root node(s) %s still linked into ctx->saves (dangling pointer into a dead C frame)"
                   % ",".join(names), key=key, extra={"linked": names})

    ex = PathExplorer(fn, transfer, branch, at_exit)
    ex.run(((), ()))
    if ex.truncated:
        res.broken.append("R1: state explosion in %s" % fn.name)
    if not found:
        stat.discharged += 1
        stat.sample({"function": fn.name, "where": fn.where(),
                     "links": sorted({fn.vars[v]["n"] for (k, v, c) in events.values() if k == "link"}),
                     "verdict": "every path returns with an empty link stack"})
    seen = set()
    for f in found:
        if f.key() not in seen:
            seen.add(f.key())
            res.add(f)


def run_r1(prog, res, floor=0):
    stat = res.stat("C02.R1", "functions containing a root link: link stack empty at every return, "
                    "unlink only of linked nodes, no double link", floor=floor)
    for fn in prog.all_funcs():
        r1_function(fn, res, stat)
    return stat


# ------------------------------------------------------------------ R3(b): fresh value passed unrooted

ALLOC_PRIMS = {"sexp_alloc_tagged_aux", "sexp_alloc"}


# functions whose result is always reachable from a strongly held table (so never "fresh and
# unreferenced"), although they allocate it: confirmed by reading
NOT_FRESH = {
    "sexp_intern": "the symbol table holds every interned symbol",
    "sexp_string_to_symbol_op": "interns",
    "sexp_lookup_type_op": "type objects live in the context's type table",
    "sexp_register_type_op": "stored in the context's type table before returning",
    "sexp_register_simple_type_op": "stored in the context's type table before returning",
    "sexp_get_bucket": "never a heap object: the fixnum computed by sexp_hash / sexp_hash_by_identity, or the user hash "
                       "function's result only when its unboxed value is below the bucket count - which no heap pointer "
                       "satisfies - and SEXP_ZERO otherwise (the inference sees only that a sexp_apply result may be returned)",
}
# boxing functions that return an immediate for small arguments
INT_BOXERS = {"sexp_make_integer", "sexp_make_unsigned_integer", "sexp_make_integer_from_lsint",
              "sexp_make_unsigned_integer_from_luint"}


def producers(prog, cg, strict=True):
    """functions whose return value is a freshly allocated object that nothing else references yet
    (under-approximation: the returned local is defined from an allocation / another producer and is
    never passed to another function or stored anywhere)"""
    prod = set()
    changed = True
    rounds = 0
    while changed and rounds < 6:
        changed = False
        rounds += 1
        for fn in cg.funcs:
            if fn.name in prod or fn.ret_type != "struct sexp_struct *":
                continue
            ok = False
            nrets = 0
            nfresh = 0
            for i, nd in enumerate(fn.nodes):
                if nd["k"] != "ret" or not nd.get("c"):
                    continue
                nrets += 1
                r = fn.strip(nd["c"][0])
                rn = fn.nodes[r]
                cands = []
                if rn["k"] == "call":
                    cands = [r]
                elif rn["k"] == "ref" and "d" in rn and rn["d"] not in fn.params:
                    vid = rn["d"]
                    escaped = False
                    defs = []
                    for j, n2 in enumerate(fn.nodes):
                        if n2["k"] == "call":
                            for a in n2["c"][1:]:
                                a0 = fn.strip(a)
                                if fn.nodes[a0]["k"] == "ref" and fn.nodes[a0].get("d") == vid:
                                    escaped = True
                        if n2["k"] == "bin" and n2["o"] == "=":
                            l, rr = fn.strip(n2["c"][0]), fn.strip(n2["c"][1])
                            if fn.nodes[l]["k"] == "ref" and fn.nodes[l].get("d") == vid:
                                defs.append(rr)
                            elif fn.nodes[rr]["k"] == "ref" and fn.nodes[rr].get("d") == vid:
                                escaped = True     # stored somewhere
                        if n2["k"] == "decl" and n2.get("d") == vid and n2.get("c"):
                            defs.append(fn.strip(n2["c"][0]))
                    # (p ? make_a(..) : make_b(..)): either arm may be the value
                    flat = []
                    for d0 in defs:
                        if fn.nodes[d0]["k"] == "cond":
                            flat.extend(fn.strip(c) for c in fn.nodes[d0]["c"][1:])
                        else:
                            flat.append(d0)
                    defs = flat
                    if strict:
                        if not escaped and defs and all(fn.nodes[d]["k"] == "call" for d in defs):
                            cands = defs
                    else:
                        cands = [d for d in defs if fn.nodes[d]["k"] == "call" and
                                 (fn.nodes[d].get("o") in ALLOC_PRIMS or fn.nodes[d].get("o") in prod)]
                if cands and all(fn.nodes[c].get("o") in ALLOC_PRIMS or fn.nodes[c].get("o") in prod for c in cands):
                    nfresh += 1
            ok = nrets > 0 and (nfresh == nrets if strict else nfresh > 0)
            if fn.name in NOT_FRESH:
                ok = False
            if ok:
                prod.add(fn.name)
                changed = True
    return prod


def must_alloc_functions(prog, cg):
    """functions on which every path from entry to a normal return passes through an allocation
    (a call to an allocation primitive or to another such function)"""
    from cfg import PathExplorer
    must = set(ALLOC_PRIMS)
    changed = True
    rounds = 0
    while changed and rounds < 6:
        changed = False
        rounds += 1
        for fn in cg.funcs:
            if fn.name in must:
                continue
            calls = {i for i, nd in enumerate(fn.nodes) if nd["k"] == "call" and nd.get("o") in must}
            if not calls:
                continue
            bad = []

            def transfer(bid, e, st, calls=calls):
                if e in calls:
                    return [True]
                return None

            def at_exit(bid, st, key, bad=bad):
                if not st:
                    bad.append(bid)

            # `if (cstr == NULL) return ...` on a C pointer parameter: callers hand such functions a real string;
            # the exit behind that guard does not make the function a "may not allocate" one
            cptrs = {fn.vars[v]["n"] for v in fn.params if "*" in (fn.var_type(v) or "") and "sexp_struct" not in (fn.var_type(v) or "")}

            def branch(bid, si, succ, st, fn=fn, cptrs=cptrs):
                b = fn.blocks[bid]
                if b.cond is None or len(b.succs) != 2 or not cptrs:
                    return st
                c = fn.strip(b.cond)
                nd = fn.nodes[c]
                neg = False
                if nd["k"] == "un" and nd["o"] == "!":
                    c = fn.strip(nd["c"][0]); nd = fn.nodes[c]; neg = True
                null_edge = None
                if nd["k"] == "ref" and fn.txt(c) in cptrs:
                    null_edge = 0 if neg else 1                 # !p true / p false
                elif nd["k"] == "bin" and nd["o"] in ("==", "!="):
                    for a, bb in ((0, 1), (1, 0)):
                        if fn.txt(fn.strip(nd["c"][a])) in cptrs and fn.const_val(nd["c"][bb]) == 0:
                            e = 0 if nd["o"] == "==" else 1
                            null_edge = (1 - e) if neg else e
                if null_edge is not None and si == null_edge:
                    return None
                return st

            ex = PathExplorer(fn, transfer, branch, at_exit, limit=20000)
            ex.run(False)
            if not bad and not ex.truncated:
                must.add(fn.name)
                changed = True
    return must


def _must_execute(fn, node):
    """every path from entry to a normal return evaluates `node`"""
    from cfg import PathExplorer
    bad = []

    def transfer(bid, e, st):
        return [True] if e == node else None

    def at_exit(bid, st, key):
        if not st:
            bad.append(bid)
    ex = PathExplorer(fn, transfer, None, at_exit, limit=20000)
    ex.run(False)
    return not bad and not ex.truncated


def _propagate_unsafe(cg, unsafe):
    """a parameter handed on - on every path - to a parameter that is already unsafe is unsafe too"""
    changed = True
    while changed:
        changed = False
        for fn in cg.funcs:
            for i, nd in enumerate(fn.nodes):
                if nd["k"] == "call" and nd.get("o"):
                    for ai, a in enumerate(nd["c"][1:]):
                        if (nd["o"], ai) in unsafe:
                            a0 = fn.strip(a)
                            if fn.nodes[a0]["k"] == "ref" and fn.nodes[a0].get("d") in fn.params:
                                key = (fn.name, fn.params.index(fn.nodes[a0]["d"]))
                                if key not in unsafe and _must_execute(fn, i):
                                    unsafe.add(key)
                                    changed = True
    return unsafe


def unsafe_params(prog, cg, must):
    """(function name, param index): on every path to some read of the parameter an allocation has
    already happened inside the callee (the allocating call dominates the read)"""
    from cfg import elem_positions, enclosing_elem, dominators, dominates
    unsafe = set()
    for fn in cg.funcs:
        sps = [(i, v) for i, v in enumerate(fn.params) if fn.var_type(v) == "struct sexp_struct *" and i > 0]
        if not sps:
            continue
        gc_calls = [i for i, nd in enumerate(fn.nodes) if nd["k"] == "call" and nd.get("o") in must]
        if not gc_calls:
            continue
        pos = elem_positions(fn)
        dom = dominators(fn)
        for (pi, vid) in sps:
            reads = [i for i, nd in enumerate(fn.nodes) if nd["k"] == "ref" and nd.get("d") == vid]
            hit = False
            for c in gc_calls:
                pc = enclosing_elem(fn, c, pos)
                inside = set(fn.subtree(c))
                for r in reads:
                    if r in inside:
                        continue
                    pr = enclosing_elem(fn, r, pos)
                    if pc and pr and dominates(dom, pc, pr):
                        hit = True
                        break
                if hit:
                    break
            if hit:
                unsafe.add((fn.name, pi))
    return _propagate_unsafe(cg, unsafe)


def run_r3b(prog, res, cg):
    stat = res.stat("C02.R3b", "a freshly allocated object is never handed, unrooted, to a parameter that its callee reads "
                    "after a collection point (nor evaluated next to another allocating argument)", floor=0)
    must = must_alloc_functions(prog, cg)
    # R3b asks "may this call return an object nothing else references?" (some return path is fresh)
    prod = producers(prog, cg, strict=False)
    unsafe = unsafe_params(prog, cg, must)
    res.notes.append("R3b: %d producer functions, %d must-allocate functions, %d unsafe (function, parameter) pairs"
                     % (len(prod), len(must), len(unsafe)))
    for fn in prog.all_funcs():
        if fn.unit.name == "main.c":
            continue       # REPL driver, not library code
        for i, nd in enumerate(fn.nodes):
            if nd["k"] != "call" or not nd.get("o"):
                continue
            args = nd["c"][1:]
            fresh = []
            for ai, a in enumerate(args):
                a0 = fn.strip(a)
                if fn.nodes[a0]["k"] == "call" and fn.nodes[a0].get("o") in prod:
                    if fn.nodes[a0]["o"] in INT_BOXERS and all(fn.const_val(x) is not None for x in fn.nodes[a0]["c"][2:]):
                        continue      # boxing a small constant yields an immediate
                    fresh.append((ai, a0))
            if not fresh:
                continue
            stat.sites += 1
            stat.obligations += 1
            bad = None
            for (ai, a0) in fresh:
                if (nd["o"], ai) in unsafe:
                    bad = ("%s(...) is passed as argument %d of %s, which reads that parameter after a call that may "
                           "collect" % (fn.nodes[a0]["o"], ai + 1, nd["o"]), fn.nodes[a0]["o"])
            if bad is None and len(fresh) >= 2 and fn.nodes[fresh[1][1]]["o"] in must:
                bad = ("%s(...) and %s(...) are both evaluated as arguments of %s: whichever runs first is unrooted while "
                       "the other allocates" % (fn.nodes[fresh[0][1]]["o"], fn.nodes[fresh[1][1]]["o"], nd["o"]),
                       fn.nodes[fresh[0][1]]["o"])
            if bad is None:
                stat.discharged += 1
                stat.sample({"site": fn.where(i), "function": fn.name, "call": fn.txt(i)[:70]}, limit=3)
            else:
                res.add(Finding("C02", "R3b.unrooted-fresh-argument", fn.name, "%s <- %s" % (nd["o"], bad[1]), fn.where(i),
                                "in %s: %s; the new object is referenced only from a C temporary at that moment, so a "
                                "collection there reclaims it (and runs its finalizer) although the caller still uses it"
                                % (fn.name, bad[0]), unit=fn.unit.display))
    return stat


def rooted_locals(fn):
    """locals whose address is registered in a root node: (node).var = &local"""
    out = set()
    for nd in fn.nodes:
        if nd["k"] == "bin" and nd["o"] == "=":
            l = fn.strip(nd["c"][0])
            if fn.nodes[l]["k"] == "mem" and fn.nodes[l]["o"] == "var":
                r = fn.strip(nd["c"][1])
                if fn.nodes[r]["k"] == "un" and fn.nodes[r]["o"] == "&":
                    x = fn.strip(fn.nodes[r]["c"][0])
                    if fn.nodes[x]["k"] == "ref" and "d" in fn.nodes[x]:
                        out.add(fn.nodes[x]["d"])
    return out


def registration_positions(fn, pos):
    """{local: [CFG positions of (node).var = &local]}"""
    from cfg import enclosing_elem
    out = {}
    for i, nd in enumerate(fn.nodes):
        if nd["k"] == "bin" and nd["o"] == "=":
            l = fn.strip(nd["c"][0])
            if fn.nodes[l]["k"] == "mem" and fn.nodes[l]["o"] == "var":
                r = fn.strip(nd["c"][1])
                if fn.nodes[r]["k"] == "un" and fn.nodes[r]["o"] == "&":
                    x = fn.strip(fn.nodes[r]["c"][0])
                    if fn.nodes[x]["k"] == "ref" and "d" in fn.nodes[x]:
                        p = enclosing_elem(fn, i, pos)
                        if p is not None:
                            out.setdefault(fn.nodes[x]["d"], []).append(p)
    return out


def dst_producers(prog, cg, prod):
    """{function name: parameter index}: functions that return their `dst` parameter, allocating a
    fresh object into it when the caller passed NULL - a call with a literal NULL there is a producer"""
    out = {}
    for fn in cg.funcs:
        if fn.ret_type != "struct sexp_struct *":
            continue
        rets = [fn.strip(nd["c"][0]) for nd in fn.nodes if nd["k"] == "ret" and nd.get("c")]
        if not rets:
            continue
        vids = set()
        for r in rets:
            rn = fn.nodes[r]
            vids.add(rn.get("d") if rn["k"] == "ref" else None)
        if len(vids) != 1 or None in vids:
            continue
        vid = vids.pop()
        if vid not in fn.params:
            continue
        fresh = False
        for nd in fn.nodes:
            if nd["k"] == "bin" and nd["o"] == "=":
                l, r = fn.strip(nd["c"][0]), fn.strip(nd["c"][1])
                if fn.nodes[l]["k"] == "ref" and fn.nodes[l].get("d") == vid and fn.nodes[r]["k"] == "call" and \
                        (fn.nodes[r].get("o") in prod or fn.nodes[r].get("o") in ALLOC_PRIMS):
                    fresh = True
        if fresh:
            out[fn.name] = fn.params.index(vid)
    return out


def immediate_after_exception_test(prog, fn, vid, rhs, pd, dom, pos):
    """the local is defined by a callee that returns an exception object or a boxed integer, and an
    `if (sexp_exceptionp(v)) return ...` follows the definition"""
    from rules import c01i
    callee = prog.func(fn.nodes[rhs].get("o"), fn.unit)
    if callee is None or not c01i.returns_nonneg_cursor(prog, callee):
        return False
    for b in fn.blocks.values():
        if b.cond is None or len(b.succs) != 2:
            continue
        c = fn.strip(b.cond)
        if fn.nodes[c]["k"] != "bin" or fn.nodes[c]["o"] != "&&":
            continue
        if "sexp_exceptionp" not in (fn.macros(c) or ()) or vid not in fn.refs_in(c):
            continue
        if not (pd[0] == b.id or pd[0] in dom.get(b.id, ())):
            continue
        t = b.succs[0]
        if t is not None and t >= 0 and any(fn.nodes[e]["k"] == "ret" for e in fn.blocks[t].elems):
            return True
    return False


def callback_callers(prog):
    """functions that apply a procedure they were handed as an argument (a comparator, a hash function ...):
    {name: set of parameter indexes}.  A procedure of the program's choosing may allocate, so under the
    property's quantifier a call of such a function is a collection point like a must-allocate call."""
    out = {}
    changed = True
    rounds = 0
    while changed and rounds < 5:
        changed = False
        rounds += 1
        for fn in prog.all_funcs():
            if not fn.blocks:
                continue
            for nd in fn.nodes:
                if nd["k"] != "call" or not nd.get("o"):
                    continue
                name = nd["o"]
                args = nd["c"][1:]
                idxs = set()
                if name.startswith("sexp_apply") and len(args) >= 2:
                    idxs = {1}
                elif name in out:
                    idxs = out[name]
                for k in idxs:
                    if k < len(args):
                        a = fn.strip(args[k])
                        an = fn.nodes[a]
                        if an["k"] == "ref" and an.get("d") in fn.params:
                            pk = fn.params.index(an["d"])
                            if pk not in out.setdefault(fn.name, set()):
                                out[fn.name].add(pk)
                                changed = True
    return {k: v for k, v in out.items() if v}


def run_r3a(prog, res, cg, must=None, prod=None):
    from cfg import elem_positions, enclosing_elem, dominators, dominates, redefined_between
    stat = res.stat("C02.R3a", "a freshly allocated object held only in an unrooted C local is not used after a later "
                    "allocation in the same function", floor=100)
    must = must or must_alloc_functions(prog, cg)
    cbs = callback_callers(prog)
    must = set(must) | set(cbs)
    prod = prod or producers(prog, cg, strict=False)
    dstp = dst_producers(prog, cg, prod)
    unsafe = unsafe_params(prog, cg, must)

    def fresh_call(fn, rhs):
        rn = fn.nodes[rhs]
        if rn["k"] != "call":
            return False
        if rn.get("o") in prod:
            return True
        k = dstp.get(rn.get("o"))
        if k is not None and k + 1 < len(rn["c"]):
            return fn.const_val(rn["c"][k + 1]) == 0
        return False
    for fn in prog.all_funcs():
        if fn.unit.name in ("main.c",) or fn.unit.display.startswith("tests/"):
            continue       # drivers / embedding test programs, not library code
        rooted = rooted_locals(fn)
        defs = []
        for i, nd in enumerate(fn.nodes):
            rhs = None
            vid = None
            if nd["k"] == "bin" and nd["o"] == "=":
                l = fn.strip(nd["c"][0])
                if fn.nodes[l]["k"] == "ref" and "d" in fn.nodes[l]:
                    vid, rhs = fn.nodes[l]["d"], fn.strip(nd["c"][1])
            elif nd["k"] == "decl" and "d" in nd and nd.get("c"):
                vid, rhs = nd["d"], fn.strip(nd["c"][0])
            if vid is None:
                continue
            if fn.var_type(vid) != "struct sexp_struct *":
                continue
            if fresh_call(fn, rhs):
                defs.append((i, vid, rhs))
        if not defs:
            continue
        pos = elem_positions(fn)
        dom = dominators(fn)
        # a rooted local is safe from its registration on: definitions the registration dominates are not
        # examined, the others are treated as unrooted until the registration executes
        regpos = registration_positions(fn, pos) if rooted else {}
        defs = [(d, vid, rhs) for (d, vid, rhs) in defs
                if vid not in rooted or not any(dominates(dom, p, enclosing_elem(fn, d, pos)) for p in regpos.get(vid, ()))]
        if not defs:
            continue
        from cfg import block_reach
        _br = {}

        def reaches(pa, pb):
            """position b can execute after position a"""
            if pa is None or pb is None:
                return False
            if pa[0] == pb[0] and pa[1] < pb[1]:
                return True
            if pa[0] not in _br:
                _br[pa[0]] = block_reach(fn, pa[0])
            return pb[0] in _br[pa[0]]
        allocs = [i for i, nd in enumerate(fn.nodes) if nd["k"] == "call" and nd.get("o") in must]
        for (d, vid, rhs) in defs:
            stat.sites += 1
            stat.obligations += 1
            pd = enclosing_elem(fn, d, pos)
            name = fn.vars[vid]["n"]
            def _is_write(i):
                pn = fn.parent(i)
                return pn is not None and fn.nodes[pn]["k"] == "bin" and fn.nodes[pn]["o"] == "=" and \
                    fn.strip(fn.nodes[pn]["c"][0]) == i
            reads = [i for i, nd in enumerate(fn.nodes) if nd["k"] == "ref" and nd.get("d") == vid
                     and i not in fn.subtree(d) and not _is_write(i)]
            # stores that make the object reachable from elsewhere: X->f = v / a[i] = v / rooted = v
            published = []
            for i, nd in enumerate(fn.nodes):
                if nd["k"] == "bin" and nd["o"] == "=":
                    r = fn.strip(nd["c"][1])
                    # chained assignment  X->f = v = make(...)  publishes v as it is defined
                    if fn.nodes[r]["k"] == "bin" and fn.nodes[r]["o"] == "=":
                        r = fn.strip(fn.nodes[r]["c"][0])
                    if fn.nodes[r]["k"] == "ref" and fn.nodes[r].get("d") == vid:
                        l = fn.strip(nd["c"][0])
                        ln = fn.nodes[l]
                        if ln["k"] in ("mem", "idx") or (ln["k"] == "ref" and (ln.get("d") in rooted or ln.get("dk") == "g")):
                            published.append(enclosing_elem(fn, i, pos))
                if nd["k"] == "call":
                    # passed to a function that may register it (sexp_preserve_object, sexp_push ...): treat as published
                    for a in nd["c"][1:]:
                        a0 = fn.strip(a)
                        if fn.nodes[a0]["k"] == "ref" and fn.nodes[a0].get("d") == vid and nd.get("o") not in must:
                            pass
            bad = None
            from cfg import reach_without, local_defs
            # a callee that returns an exception object or a boxed integer: once the exception case is excluded
            # the local holds an immediate, which no collection can touch
            if immediate_after_exception_test(prog, fn, vid, rhs, pd, dom, pos):
                stat.discharged += 1
                continue
            kills = set()
            for (dn, _r) in local_defs(fn, vid):
                pk = enclosing_elem(fn, dn, pos)
                if pk is not None and pk != pd:
                    kills.add(pk)
            pubs = set(p for p in published if p) | set(regpos.get(vid, ()))
            for c in allocs:
                if c == rhs or c in fn.subtree(d):
                    continue
                pc = enclosing_elem(fn, c, pos)
                if not (pd and pc):
                    continue
                cargs = fn.nodes[c]["c"][1:]
                # allocating *through* the fresh object (a new context) marks it first
                if cargs and fn.nodes[fn.strip(cargs[0])]["k"] == "ref" and fn.nodes[fn.strip(cargs[0])].get("d") == vid:
                    continue
                # some path definition -> allocation on which the local is neither overwritten nor published
                if not reach_without(fn, pd, pc, kills | pubs):
                    continue
                for r in reads:
                    pr = enclosing_elem(fn, r, pos)
                    if r in fn.subtree(c):
                        # passed to the allocating call itself: a hazard only if the callee reads that
                        # parameter after its own collection point
                        for ai, a in enumerate(cargs):
                            if fn.strip(a) == r and (fn.nodes[c].get("o"), ai) in unsafe:
                                bad = (c, r)
                        if bad:
                            break
                        continue
                    if pr and reach_without(fn, pc, pr, kills | {pd}):
                        bad = (c, r)
                        break
                if bad:
                    break
            if not bad:
                stat.discharged += 1
                stat.sample({"function": fn.name, "local": name, "from": fn.nodes[rhs]["o"], "where": fn.where(d)}, limit=3)
            else:
                c, r = bad
                res.add(Finding("C02", "R3a.unrooted-fresh-local", fn.name, "%s = %s(...) across %s" %
                                (name, fn.nodes[rhs]["o"], fn.nodes[c]["o"]), fn.where(d),
                                "%s holds the result of %s only in the unrooted local `%s`, then calls %s (which always "
                                "allocates, or applies a procedure it was handed) at %s and uses `%s` again afterwards at %s: "
                                "a collection at that allocation reclaims the object" % (fn.name, fn.nodes[rhs]["o"], name, fn.nodes[c]["o"], fn.where(c),
                                                         name, fn.where(r)), unit=fn.unit.display))
    return stat


def witnesses_r3(prog, res):
    """positive/negative examples for R3a/R3b analysed together with the real units (the rules'
    expected count on a healthy tree is zero, so they must be seen firing on every run)"""
    import os
    import extract
    import callgraph
    import report
    from facts import Program
    path = os.path.join(extract.VERIF, "selftest", "witness", "c02r3.c")
    wp = extract.load_program(prog.config, only={"<none>"}, extra_sources=[(path, [])])
    both = Program(list(prog.units) + list(wp.units))
    both.config = prog.config
    cg = callgraph.CallGraph(both)
    r2 = report.Result("C02", "quick")
    run_r3b(both, r2, cg)
    run_r3a(both, r2, cg)
    hit = {f.function for f in r2.findings}
    names = [n for n in wp.units[0].functions if n.startswith("witness_")]
    if len(names) < 4:
        res.broken.append("R3 witness file yielded only %d functions" % len(names))
    for n in sorted(names):
        if n.startswith("witness_bad_"):
            res.witness.append((n, n in hit))
        else:
            res.witness.append((n, n not in hit))


# ------------------------------------------------------------------ R6: object words embedded in bytecode

def _immediate_expr(fn, n, depth=0, prog=None):
    """expression certainly denotes an immediate: an integer expression cast to sexp, or a local all of
    whose definitions are such expressions"""
    from cfg import local_defs
    n0 = n
    while fn.nodes[n0]["k"] == "cast":
        inner = fn.nodes[n0]["c"][0]
        if not (fn.type(inner) or "").endswith("*"):
            return True
        n0 = inner
    nd = fn.nodes[n0]
    if "v" in nd and nd["k"] in ("int", "const"):
        return True
    if nd["k"] == "ref" and "d" in nd and depth < 3:
        defs = local_defs(fn, nd["d"])
        return bool(defs) and all(r is not None and _immediate_expr(fn, r, depth + 1, prog) for (_d, r) in defs)
    if nd["k"] == "cond":
        return _immediate_expr(fn, nd["c"][1], depth + 1, prog) and _immediate_expr(fn, nd["c"][2], depth + 1, prog)
    if nd["k"] == "call" and nd.get("o") and prog is not None and depth < 3:
        # a callee all of whose returns are immediates (sexp_length_op: fixnum or #f)
        callee = prog.func(nd["o"], fn.unit)
        if callee is not None:
            rets = [x for x, n2 in enumerate(callee.nodes) if n2["k"] == "ret" and n2.get("c")]
            return bool(rets) and all(_immediate_expr(callee, callee.nodes[r]["c"][0], depth + 1, prog) for r in rets)
    return False


def run_r6(prog, res):
    from cfg import PathExplorer
    stat = res.stat("C02.R6", "every object word emitted into bytecode is also pushed on the bytecode's literal list "
                    "(the collector does not scan bytecode bodies)", floor=4)
    for fn in prog.all_funcs():
        if fn.unit.name not in ("vm.c", "eval.c", "simplify.c", "rest.c", "profile.c", "ast.c"):
            continue
        emits = []
        for i, nd in enumerate(fn.nodes):
            if nd["k"] == "call" and nd.get("o") == "sexp_emit_word" and len(nd["c"]) > 2:
                a = nd["c"][2]
                x = a
                while fn.nodes[x]["k"] == "cast":
                    x = fn.nodes[x]["c"][0]
                if fn.type(x) == "struct sexp_struct *":
                    emits.append((i, x))
        for (e, x) in emits:
            stat.sites += 1
            if _immediate_expr(fn, x, 0, prog):
                continue
            stat.obligations += 1
            txt = fn.txt(x)
            pres = {j for j, n2 in enumerate(fn.nodes) if n2["k"] == "call" and n2.get("o") == "bytecode_preserve"
                    and len(n2["c"]) > 2 and fn.txt(n2["c"][2]) == txt}
            ok = False
            if pres:
                bad = []

                def transfer(bid, el, st):
                    if el == e:
                        return ["emitted"]
                    if el in pres and st == "emitted":
                        return ["preserved"]
                    return None

                def at_exit(bid, st, key):
                    if st == "emitted":
                        bad.append(bid)
                ex = PathExplorer(fn, transfer, None, at_exit)
                ex.run("start")
                ok = not bad
            if ok:
                stat.discharged += 1
                stat.sample({"site": fn.where(e), "function": fn.name, "word": txt[:50], "preserved_by": "bytecode_preserve(ctx, %s)" % txt[:40]})
            else:
                res.add(Finding("C02", "R6.unpreserved-bytecode-literal", fn.name, txt[:60], fn.where(e),
                                "%s embeds the address of `%s` in the bytecode but does not (on every path) push it on the "
                                "bytecode's literal list with bytecode_preserve: the collector does not scan bytecode bodies, so "
                                "the object can be reclaimed while compiled code still points at it" % (fn.name, txt[:60]),
                                unit=fn.unit.display))
    return stat


# ------------------------------------------------------------------ R4: the VM publishes `top` before collection points

def run_r4(prog, res, cg):
    """In sexp_apply the marker sees the stack only up to sexp_context_top(ctx) (Stack row: slots are
    counted by the `top` field).  Track d = published_top - top through each opcode's case, starting
    unknown at the dispatch; at every call that may reach the allocator require d known and >= 0."""
    from rules.c03 import top_delta
    stat = res.stat("C02.R4", "VM: sexp_context_top(ctx) has been set to at least the current `top` before every call that "
                    "may allocate", floor=40)
    fn = prog.func("sexp_apply")
    if fn is None:
        raise AnalysisBroken("anchor vanished: sexp_apply")
    topv = [i for i, v in enumerate(fn.vars) if v["n"] == "top" and v["k"] == "l"][0]
    maygc = cg.reaches_any({"sexp_alloc", "sexp_gc"})
    enum = {v: n for n, v in __import__("tables").enum_values(prog, const_prefix="SEXP_OP_NOOP")}

    def publish(e):
        """sexp_context_top(ctx) = top + k  ->  k ; other store to it -> 'unknown'; else None"""
        nd = fn.nodes[e]
        if nd["k"] != "bin" or nd["o"] != "=":
            return None
        l = fn.strip(nd["c"][0])
        if fn.nodes[l]["k"] != "mem" or fn.nodes[l]["o"] != "top":
            return None
        root, path = fn.mempath(l)
        if path != ["value", "stack", "top"]:
            return None
        r = fn.strip(nd["c"][1])
        rn = fn.nodes[r]
        if rn["k"] == "ref" and rn.get("d") == topv:
            return 0
        if rn["k"] == "un" and rn["o"] in ("pre--", "pre++", "post--", "post++"):
            x = fn.strip(rn["c"][0])
            if fn.nodes[x]["k"] == "ref" and fn.nodes[x].get("d") == topv:
                # the element for the inc/dec itself has already shifted `top`; the stored value is the
                # new top for pre-forms and the old one for post-forms
                return 0 if rn["o"].startswith("pre") else (1 if rn["o"] == "post--" else -1)
        if rn["k"] == "bin" and rn["o"] in ("+", "-"):
            a, b = fn.strip(rn["c"][0]), fn.strip(rn["c"][1])
            if fn.nodes[a]["k"] == "ref" and fn.nodes[a].get("d") == topv and fn.const_val(b) is not None:
                return fn.const_val(b) if rn["o"] == "+" else -fn.const_val(b)
        return "unknown"

    sw = None
    for b in fn.blocks.values():
        if b.term == "SwitchStmt":
            n = sum(1 for s in b.succs if s is not None and s >= 0 and fn.blocks[s].lk == "case")
            if sw is None or n > sw[1]:
                sw = (b, n)
    sw = sw[0]
    case_of = {}
    for s in sw.succs:
        if s is not None and s >= 0 and fn.blocks[s].lk == "case" and fn.blocks[s].clo is not None:
            case_of[s] = fn.blocks[s].clo
    labels = {b.id for b in fn.blocks.values() if b.lk == "label"}
    reported = set()
    for start, code in sorted(case_of.items()):
        opname = enum.get(code, str(code))
        seen = set()
        work = [(start, "?")]
        while work:
            bid, d = work.pop()
            if (bid, d) in seen or len(seen) > 4000:
                continue
            seen.add((bid, d))
            b = fn.blocks[bid]
            cur = d
            for e in b.elems:
                p = publish(e)
                if p is not None:
                    cur = p if p != "unknown" else "?"
                    continue
                td = top_delta(fn, e, topv)
                if td == "abs":
                    cur = "?"
                elif td is not None and cur != "?":
                    cur -= td
                nd = fn.nodes[e]
                if nd["k"] == "call":
                    name = nd.get("o")
                    tgt = cg.resolve(fn.unit, name) if name else None
                    gc = (tgt is not None and tgt in maygc) or (name in ("sexp_alloc_tagged_aux",)) or (not name)
                    if not gc:
                        continue
                    stat.sites += 1
                    key = (opname, name or "indirect call", fn.line(e))
                    if key in reported:
                        continue
                    reported.add(key)
                    stat.obligations += 1
                    if cur != "?" and cur >= 0:
                        stat.discharged += 1
                        stat.sample({"opcode": opname, "call": name or "indirect", "published_minus_top": cur, "where": fn.where(e)}, limit=4)
                    else:
                        res.add(Finding("C02", "R4.top-not-published", "sexp_apply", "%s: %s" % (opname, name or "indirect call"),
                                        fn.where(e), "in the VM case %s the call to %s may allocate, but sexp_context_top(ctx) %s: "
                                        "the collector marks the stack only up to the published top, so operands above it are "
                                        "invisible to a collection triggered inside the call"
                                        % (opname, name or "a function pointer",
                                           "has not been set since the instruction was dispatched" if cur == "?" else
                                           "is %d below the current top" % -cur), unit="vm.c"))
            if b.term == "GotoStmt" and (b.ln or "").startswith("goto:") and b.ln[5:] in ("loop", "end_loop"):
                continue            # next instruction / leaving the interpreter: handled from their own starts
            for s in b.succs:
                if s is None or s < 0 or s == fn.exit or s == sw.id:
                    continue
                if s in case_of and s != start:
                    continue
                if fn.blocks[s].lk == "label" and fn.blocks[s].ln == "end_loop":
                    continue        # leaving the interpreter loop: no operands are live any more
                work.append((s, cur))
    return stat


# ------------------------------------------------------------------ R7
def run_r7(prog, res, cg):
    """A slot that the type table tells the marker to trace must hold an object (or an immediate)
    whenever a collection can happen.  Objects copied from the static tables (opcodes, core forms,
    types) carry C strings in such slots until they are converted; the conversion idiom
    `F(x) = make(ctx, (char*)F(x))` - and any other may-collect call that is handed `(char*) x->traced_field`
    - runs a possible collection while the slot still holds the raw pointer."""
    import tables
    from tables import Layout
    stat = res.stat("C02.R7", "no call that may collect is handed a traced slot reinterpreted as a C pointer "
                    "(the slot would hold a non-object during the collection)", floor=0)
    rows, _g = tables.type_rows(prog)
    L = Layout(prog)
    traced = set()
    for row in rows:
        m = row["_member"]
        if m is None:
            continue
        for k in range(row["field_len_base"]):
            f = L.field_at(m, row["field_base"] + 8 * k)
            if f is not None:
                traced.add((m, f[0]))
    maygc = cg.reaches_any({"sexp_alloc", "sexp_gc"})
    for fn in prog.all_funcs():
        if fn.unit.display.startswith("tests/") or not fn.blocks:
            continue
        for i, nd in enumerate(fn.nodes):
            if nd["k"] != "call":
                continue
            name = nd.get("o")
            gc = False
            if name:
                f2 = prog.func(name, fn.unit)
                gc = f2 is not None and f2 in maygc
            if not gc:
                continue
            for a in nd["c"][1:]:
                # the argument itself is the reinterpreted slot (not a data pointer computed from it)
                x = a
                while fn.nodes[x]["k"] == "paren" and fn.nodes[x].get("c"):
                    x = fn.nodes[x]["c"][0]
                for x in [x]:
                    xn = fn.nodes[x]
                    if xn["k"] != "cast" or not (fn.type(x) or "").replace("const ", "").startswith("char *"):
                        continue
                    inner = fn.strip(xn["c"][0])
                    if fn.nodes[inner]["k"] != "mem" or fn.type(inner) != tables.SEXP_T:
                        continue
                    o2, path = fn.mempath(inner)
                    if len(path) != 3 or path[0] != "value" or (path[1], path[2]) not in traced:
                        continue
                    on = fn.nodes[fn.strip(o2)]
                    if on["k"] == "un" and on.get("o") == "&":
                        continue          # a row of a static table, not a heap object
                    stat.sites += 1
                    stat.obligations += 1
                    res.add(Finding("C02", "R7.raw-pointer-in-traced-slot", fn.name,
                                    "%s.%s across %s" % (path[1], path[2], name), fn.where(i),
                                    "%s passes (char*) %s to %s, which may collect: the slot value.%s.%s is traced by the "
                                    "marker for this type but still holds a C string (copied from a static table), so a "
                                    "collection at that call follows a pointer that is not a heap object"
                                    % (fn.name, fn.txt(inner)[:60], name, path[1], path[2]), unit=fn.unit.display))
    return stat


# ------------------------------------------------------------------ R8
def run_r8(prog, res):
    """sexp_preserve_object / sexp_release_object count registrations (doc/chibi.scrbl: an object preserved
    n times must be released n times): one call of sexp_release_object unlinks at most one cell of the
    preservation list - after an unlinking store no path of the same call reaches an unlinking store again."""
    from cfg import block_reach, elem_positions, enclosing_elem
    stat = res.stat("C02.R8", "sexp_release_object removes at most one registration per call (counting semantics of the "
                    "preservation list)", floor=1)
    fn = prog.func("sexp_release_object")
    if fn is None:
        raise AnalysisBroken("anchor vanished: sexp_release_object")
    pos = elem_positions(fn)
    unlinks = []
    for i, nd in enumerate(fn.nodes):
        if nd["k"] == "bin" and nd["o"] == "=":
            l, r = fn.strip(nd["c"][0]), fn.strip(nd["c"][1])
            # list surgery: <cdr of a cell | the list head> = cdr(<cell>)
            if fn.nodes[r]["k"] == "mem" and fn.nodes[r].get("o") == "cdr" and fn.nodes[l]["k"] in ("mem", "idx"):
                p = enclosing_elem(fn, i, pos)
                if p is not None:
                    unlinks.append((i, p))
    if not unlinks:
        raise AnalysisBroken("anchor vanished: sexp_release_object no longer unlinks a cell")
    stat.sites += 1
    stat.obligations += 1
    bad = None
    for (i, p) in unlinks:
        reach = block_reach(fn, p[0])
        for (j, q) in unlinks:
            if q[0] in reach or (q[0] == p[0] and q[1] > p[1]):
                bad = (i, j)
    if bad is None:
        stat.discharged += 1
        stat.sample({"function": fn.name, "unlink stores": [fn.where(i) for (i, _p) in unlinks]})
    else:
        res.add(Finding("C02", "R8.release-removes-many", fn.name, "preservation list", fn.where(bad[0]),
                        "after unlinking a cell at %s sexp_release_object can go on to unlink another at %s in the same call: "
                        "an object preserved twice and released once loses both registrations and is reclaimed while its "
                        "second owner still uses it" % (fn.where(bad[0]), fn.where(bad[1])), unit=fn.unit.display))
    return stat


# ------------------------------------------------------------------ R9: interior pointer outlives the root
def run_r9(prog, res, cg, floor=0):
    """A C pointer into the data of a heap object (`char *s = sexp_string_data(v)`) is only as good as the
    reference that keeps the object alive.  When the object is a fresh allocation known only through the local
    `v`, and `v` is overwritten while `s` is still going to be used, the next collection frees the bytes `s`
    points to.  Reported: definition of s from v's data -> reassignment of v -> call that may allocate ->
    use of s (also as an argument of that call: string-copying callees allocate first and copy afterwards)."""
    from cfg import elem_positions, enclosing_elem, reach_without, local_defs
    from rules import c01i
    stat = res.stat("C02.R9", "C pointers into the data of a fresh object are not used after the only local that "
                    "references the object was overwritten and an allocation followed", floor=floor)
    maygc = cg.reaches_any({"sexp_alloc", "sexp_gc"})
    prod = producers(prog, cg, strict=False)
    for fn in prog.all_funcs():
        if fn.unit.name in ("main.c",) or fn.unit.display.startswith("tests/") or not fn.blocks:
            continue
        pos = None
        for i, nd in enumerate(fn.nodes):
            vid = rhs = None
            if nd["k"] == "bin" and nd["o"] == "=":
                l = fn.strip(nd["c"][0])
                if fn.nodes[l]["k"] == "ref" and "d" in fn.nodes[l]:
                    vid, rhs = fn.nodes[l]["d"], nd["c"][1]
            elif nd["k"] == "decl" and "d" in nd and nd.get("c"):
                vid, rhs = nd["d"], nd["c"][0]
            if vid is None or vid in fn.params:
                continue
            t = fn.var_type(vid) or ""
            if "*" not in t or t == "struct sexp_struct *":
                continue
            db = c01i.data_base(fn, rhs)
            if db is None:
                continue
            root = fn.strip(db[1])
            while fn.nodes[root]["k"] == "mem":
                root = fn.strip(fn.nodes[root]["c"][0])
            if fn.nodes[root]["k"] != "ref" or "d" not in fn.nodes[root] or fn.nodes[root]["d"] in fn.params:
                continue
            v = fn.nodes[root]["d"]
            if fn.var_type(v) != "struct sexp_struct *":
                continue
            pos = pos or elem_positions(fn)
            pd = enclosing_elem(fn, i, pos)
            if pd is None:
                continue
            vdefs = [(dn, r, enclosing_elem(fn, dn, pos)) for (dn, r) in local_defs(fn, v)]
            # the object: every definition of v that can reach this point without another one in between is a
            # fresh producer's result (nothing else references it)
            vpos = {p for (_d, _r, p) in vdefs if p}
            reaching = [(dn, r) for (dn, r, p) in vdefs if p and p != pd and reach_without(fn, p, pd, vpos - {p})]
            if not reaching or not all(r is not None and fn.nodes[fn.strip(r)]["k"] == "call" and
                                       fn.nodes[fn.strip(r)].get("o") in prod for (_d, r) in reaching):
                continue
            stat.sites += 1
            stat.obligations += 1
            pdefs = {enclosing_elem(fn, dn, pos) for (dn, _r) in local_defs(fn, vid)} - {pd, None}
            uses = [j for j, x in enumerate(fn.nodes) if x["k"] == "ref" and x.get("d") == vid and j not in fn.subtree(i)]
            # the object stays reachable if v was stored somewhere or handed to a call before it is overwritten
            escapes = set()
            for j, x in enumerate(fn.nodes):
                if x["k"] == "bin" and x["o"] == "=":
                    r = fn.strip(x["c"][1])
                    if fn.nodes[r]["k"] == "ref" and fn.nodes[r].get("d") == v:
                        escapes.add(enclosing_elem(fn, j, pos))
                elif x["k"] == "call":
                    for a in x["c"][1:]:
                        a0 = fn.strip(a)
                        if fn.nodes[a0]["k"] == "ref" and fn.nodes[a0].get("d") == v:
                            escapes.add(enclosing_elem(fn, j, pos))
            escapes.discard(None)
            # ... on some path from a reaching definition of v to here
            if not any(p and reach_without(fn, p, pd, (vpos - {p}) | escapes)
                       for (dn0, _r0, p) in vdefs if (dn0, _r0) in reaching):
                stat.discharged += 1
                continue
            hit = None
            unrooted = v not in rooted_locals(fn)
            for (dn, _r, k) in ([(i, None, pd)] if unrooted else []) + vdefs:
                if k is None or (k == pd and not unrooted) or (k != pd and not reach_without(fn, pd, k, pdefs | escapes)):
                    continue
                for c, x in enumerate(fn.nodes):
                    if x["k"] != "call" or not x.get("o"):
                        continue
                    f2 = prog.func(x["o"], fn.unit)
                    if f2 is None or f2 not in maygc:
                        continue
                    pc = enclosing_elem(fn, c, pos)
                    if pc is None or c in fn.subtree(dn) or not (reach_without(fn, k, pc, pdefs | {pd} | (escapes if k == pd else set()))):
                        continue
                    for u in uses:
                        pu = enclosing_elem(fn, u, pos)
                        if u in fn.subtree(c) or (pu and reach_without(fn, pc, pu, pdefs | {pd})):
                            hit = (dn, c, u)
                            break
                    if hit:
                        break
                if hit:
                    break
            if not hit:
                stat.discharged += 1
                continue
            pn, vn = fn.vars[vid]["n"], fn.vars[v]["n"]
            res.add(Finding("C02", "R9.interior-pointer-outlives-root", fn.name,
                            "%s into %s across %s" % (pn, vn, fn.nodes[hit[1]].get("o")), fn.where(i),
                            "%s takes `%s`, a C pointer into the data of the fresh object held only in `%s`, then overwrites "
                            "`%s` at %s and calls %s (which may allocate) at %s while `%s` is still used: a collection there "
                            "frees the bytes `%s` points to" % (fn.name, pn, vn, vn, fn.where(hit[0]), fn.nodes[hit[1]].get("o"),
                                                                 fn.where(hit[1]), pn, pn), unit=fn.unit.display))
    return stat
