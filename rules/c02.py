"""C02 - GC never reclaims or corrupts reachable data: structural clauses.

R1  root-link pairing (typestate over the per-function CFG)
"""
from cfg import PathExplorer, edge_atoms, assigned_vars, return_node, implied
from report import Finding

GCVAR_T = "struct sexp_gc_var_t"


def _saves_store(fn, n):
    """if node n is `<ctx>->...saves = RHS` return (ctx_text, rhs) else None"""
    nd = fn.nodes[n]
    if nd["k"] != "bin" or nd["o"] != "=":
        return None
    lhs = fn.strip(nd["c"][0])
    if fn.nodes[lhs]["k"] != "mem" or fn.nodes[lhs]["o"] != "saves":
        return None
    root, path = fn.mempath(lhs)
    if path[-2:] != ["context", "saves"]:
        return None
    return fn.txt(root), fn.strip(nd["c"][1])


def link_event(fn, n):
    """('link', var, ctx) / ('unlink', var, ctx) / None for CFG element n"""
    r = _saves_store(fn, n)
    if not r:
        return None
    ctx, rhs = r
    rn = fn.nodes[rhs]
    if rn["k"] == "un" and rn["o"] == "&":
        x = fn.strip(rn["c"][0])
        xn = fn.nodes[x]
        if xn["k"] == "ref" and "d" in xn and fn.var_type(xn["d"]) == GCVAR_T:
            return ("link", xn["d"], ctx)
    if rn["k"] == "mem" and rn["o"] == "next" and not rn.get("ar"):
        x = fn.strip(rn["c"][0])
        xn = fn.nodes[x]
        if xn["k"] == "ref" and "d" in xn and fn.var_type(xn["d"]) == GCVAR_T:
            return ("unlink", xn["d"], ctx)
    return None


def stable_conditions(fn):
    """canonical texts of branch conditions that occur at least twice and only
    mention variables never assigned in the function (and no calls)"""
    assigned = assigned_vars(fn)
    count = {}
    for b in fn.blocks.values():
        if b.cond is None or b.term not in ("IfStmt", "&&", "||", "?:"):
            continue
        for (a, _pol) in implied(fn, b.cond, True):
            if fn.calls_in(a):
                continue
            refs = fn.refs_in(a)
            if not refs or refs & assigned:
                continue
            # only direct variable tests, no memory reads that could change
            if any(fn.nodes[x]["k"] in ("mem", "idx") or
                   (fn.nodes[x]["k"] == "un" and fn.nodes[x]["o"] == "*") for x in fn.subtree(a)):
                continue
            t = fn.txt(a)
            count.setdefault(t, set()).add(b.id)
    return {t for t, bs in count.items() if len(bs) >= 2}


def r1_function(fn, res, stat, prop="C02"):
    """typestate: stack of linked root nodes on every path"""
    events = {}
    for b in fn.blocks.values():
        for e in b.elems:
            ev = link_event(fn, e)
            if ev:
                events[e] = ev
    stat.sites += 1
    if not events:
        return
    stat.obligations += 1
    stat.nontrivial.add((fn.file, fn.name))
    stable = stable_conditions(fn)
    found = []

    def report(rule, disc, node, msg, key=None, extra=None):
        path = ex.path_to(key) if key else None
        found.append(Finding(prop, rule, fn.name, disc, fn.where(node), msg,
                             unit=fn.unit.display, config=fn.unit.config,
                             path=["B%s" % p for p in path] if path else None, extra=extra))

    cur = {"key": None}

    def transfer(bid, e, st):
        ev = events.get(e)
        if not ev:
            return None
        stack, conds = st
        kind, var, ctx = ev
        name = fn.vars[var]["n"]
        if kind == "link":
            if any(v == var for (v, _c) in stack):
                report("R1.double-link", "link " + name, e,
                       "root node %s linked while already linked (cycle in ctx->saves)" % name)
                return [st]
            return [(stack + ((var, ctx),), conds)]
        else:
            idx = [i for i, (v, _c) in enumerate(stack) if v == var]
            if not idx:
                report("R1.unlink-unlinked", "unlink " + name, e,
                       "release through %s.next on a path where %s was never linked: stores its initial "
                       "NULL into ctx->saves and drops every caller's roots" % (name, name))
                return [st]
            i = idx[-1]
            if stack[i][1] != ctx:
                report("R1.context-mismatch", "unlink %s on %s" % (name, ctx), e,
                       "root node %s linked on %s but released on %s" % (name, stack[i][1], ctx))
            return [(stack[:i], conds)]

    def branch(bid, i, succ, st):
        if not stable:
            return st
        stack, conds = st
        atoms = edge_atoms(fn, bid, i)
        if not atoms:
            return st
        cd = dict(conds)
        for (a, pol) in atoms:
            t = fn.txt(a)
            if t in stable:
                if t in cd and cd[t] != pol:
                    return None
                cd[t] = pol
        return (stack, tuple(sorted(cd.items())))

    def at_exit(bid, st, key):
        stack, conds = st
        if stack:
            rn = return_node(fn, bid)
            names = [fn.vars[v]["n"] for (v, _c) in stack]
            rtxt = fn.txt(rn) if rn is not None else "fall off end"
            if len(rtxt) > 120:
                rtxt = rtxt[:117] + "..."
            report("R1.return-with-linked-root", rtxt, rn if rn is not None else None,
                   "returns with root node(s) %s still linked into ctx->saves (dangling pointer into a dead C frame)"
                   % ",".join(names), key=key, extra={"linked": names})

    ex = PathExplorer(fn, transfer, branch, at_exit)
    ex.run(((), ()))
    if ex.truncated:
        res.broken.append("R1: state explosion in %s" % fn.name)
    if not found:
        stat.discharged += 1
        stat.sample({"function": fn.name, "where": fn.where(),
                     "links": sorted({fn.vars[v]["n"] for (k, v, c) in events.values() if k == "link"}),
                     "verdict": "every path returns with an empty link stack"})
    seen = set()
    for f in found:
        if f.key() not in seen:
            seen.add(f.key())
            res.add(f)


def run_r1(prog, res, floor=0):
    stat = res.stat("C02.R1", "functions containing a root link: link stack empty at every return, "
                    "unlink only of linked nodes, no double link", floor=floor)
    for fn in prog.all_funcs():
        r1_function(fn, res, stat)
    return stat
