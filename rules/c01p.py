"""C01.p - integer division by a program-supplied value is guarded.

A C `/` or `%` on integers whose divisor is the unboxed value of an operand raises SIGFPE when the
operand is zero: the host process dies instead of delivering "divide by zero" to the program.

* a division site is *guarded* when a comparison of the divisor's source with zero (the boxed
  SEXP_ZERO for an operand, 0 for its unboxed value) holds with the non-zero polarity on every path;
* an unguarded site whose divisor comes from a parameter makes that parameter *zero-unsafe*; the
  obligation moves to every call site of the function (the argument must be a non-zero constant, be
  guarded there, or be a parameter of the caller - which then becomes zero-unsafe itself);
* an obligation that reaches a value that is neither guarded nor a parameter (a local computed in
  the caller, a stack slot of the VM) is a finding; so is a zero-unsafe parameter of a primitive
  the VM calls with the program's own values.
"""
from report import Finding
from rules import c01i
from rules.c01i import Ctx, enclosing_elem, unbox_operand, facts_at

INT_TYPES = ("int", "long", "unsigned int", "unsigned long", "short", "unsigned short", "char", "unsigned char",
             "long long", "unsigned long long", "sexp_sint_t", "sexp_uint_t")
SEXP_ZERO_WORD = 1


def _is_int(t):
    return (t or "") in INT_TYPES


def _single_def(fn, n):
    from cfg import local_defs
    n = fn.strip(n)
    nd = fn.nodes[n]
    if nd["k"] != "ref" or "d" not in nd or nd["d"] in fn.params:
        return n
    ds = [r for (_d, r) in local_defs(fn, nd["d"])]
    if len(ds) == 1 and ds[0] is not None:
        return fn.strip(ds[0])
    return n


def divisor_source(fn, d):
    """(node, boxed?) of the value whose being zero makes the divisor zero, or None when the divisor is not a
    plain (unboxed) value: d = unbox(X) -> (X, True); d = integer variable -> (d, False)"""
    d = _single_def(fn, d)
    x = unbox_operand(fn, d)
    if x is not None:
        return (_single_def(fn, x), True)
    d0 = fn.strip(d)
    nd = fn.nodes[d0]
    if nd["k"] == "ref" and "d" in nd and _is_int(fn.type(d0)):
        return (d0, False)
    return None


def nonzero_guarded(cx, src, boxed, at):
    """some comparison of src with zero holds, with the non-zero polarity, on every path to `at`"""
    fn = cx.fn
    want = fn.txt(src)
    zero = SEXP_ZERO_WORD if boxed else 0
    for (a, pol, _g) in facts_at(cx, at):
        an = fn.nodes[a]
        if an["k"] == "call" and an.get("o"):
            # a one-return predicate of the same unit, `int zero_p(sexp x) { return x == SEXP_ZERO; }`:
            # its (negated) truth is the comparison it returns, about the argument
            g = fn.unit.functions.get(an["o"])
            if g is not None and g.blocks and g is not fn:
                rets = [g.strip(x["c"][0]) for x in g.nodes if x["k"] == "ret" and x.get("c")]
                if len(rets) == 1 and g.nodes[rets[0]]["k"] == "bin" and g.nodes[rets[0]]["o"] in ("==", "!="):
                    rn = g.nodes[rets[0]]
                    gl, gr = g.strip(rn["c"][0]), g.strip(rn["c"][1])
                    for x, y in ((gl, gr), (gr, gl)):
                        if g.nodes[x]["k"] == "ref" and g.nodes[x].get("d") in g.params and g.const_val(y) == zero:
                            ai = g.params.index(g.nodes[x]["d"])
                            args = an["c"][1:]
                            if ai < len(args):
                                arg = fn.strip(args[ai])
                                if fn.txt(arg) == want or fn.txt(_single_def(fn, arg)) == want:
                                    if (rn["o"] == "!=") == pol:
                                        return True
            continue
        if an["k"] == "bin" and an["o"] in ("==", "!="):
            l, r = fn.strip(an["c"][0]), fn.strip(an["c"][1])
            for x, y in ((l, r), (r, l)):
                if fn.txt(_single_def(fn, x)) == want or fn.txt(x) == want:
                    if fn.const_val(y) == zero and ((an["o"] == "!=") == pol):
                        return True
                # the unboxed form of a boxed source:  unbox(src) != 0
                if boxed:
                    ux = unbox_operand(fn, x)
                    if ux is not None and fn.txt(ux) == want and fn.const_val(y) == 0 and ((an["o"] == "!=") == pol):
                        return True
        elif an["k"] == "bin" and an["o"] in ("<", ">", "<=", ">="):
            l, r = fn.strip(an["c"][0]), fn.strip(an["c"][1])
            NEG = {"<": ">=", "<=": ">", ">": "<=", ">=": "<"}
            FLIP = {"<": ">", "<=": ">=", ">": "<", ">=": "<="}
            for x, y, o in ((l, r, an["o"]), (r, l, FLIP[an["o"]])):
                c = fn.const_val(y)
                if c is None:
                    continue
                if fn.nodes[x]["k"] == "bin" and fn.nodes[x]["o"] == "=":
                    x = fn.strip(fn.nodes[x]["c"][0])      # ((v = e) < c): the comparison is about v
                # x is the source itself (an integer) or the unboxed form of a boxed source
                if boxed:
                    ux = unbox_operand(fn, x)
                    if ux is None or (fn.txt(ux) != want and fn.txt(_single_def(fn, ux)) != want):
                        continue
                elif fn.txt(x) != want and fn.txt(_single_def(fn, x)) != want:
                    continue
                o2 = o if pol else NEG[o]
                # x o2 c  implies  x != 0 ?
                if (o2 == ">" and c >= 0) or (o2 == ">=" and c >= 1) or (o2 == "<" and c <= 0) or (o2 == "<=" and c <= -1):
                    return True
        elif not boxed and fn.txt(fn.strip(a)) == want and pol:
            return True       # if (x) ...
    return False


def library_scope(root=None):
    """advisory(fn): True for functions of C units none of whose primitives is visible through the R7RS-small
    libraries (the property speaks about those and about the core)"""
    import slint
    names, _libs = slint.scope_a_names(root, extra_libs=[("scheme", "bytevector")])

    def advisory(fn):
        key = slint.unit_key(fn.unit.display)
        if key is None:
            return False        # core units
        return not names.get(key)
    return advisory


def run(prog, res, floor=4, prop="C01", rule="C01.p", units=None, entry_names=None, advisory=None):
    stat = res.stat(rule, "integer divisions by the unboxed value of an operand are dominated by a non-zero test "
                    "(in the function, or at every call site of a function that leaves the test to its callers)", floor=floor)
    funcs = [f for f in prog.all_funcs() if f.blocks and (units is None or f.unit.name in units)]
    cxs = {}

    def ctx_of(fn):
        if fn not in cxs:
            cxs[fn] = Ctx(fn)
        return cxs[fn]
    unsafe = {}         # function name -> {param index: (where, why)}
    findings = []
    # 1. division sites
    for fn in funcs:
        for i, nd in enumerate(fn.nodes):
            if nd["k"] != "bin" or nd["o"] not in ("/", "%", "/=", "%="):
                continue
            if not _is_int(fn.type(i)) and not _is_int(fn.type(fn.strip(nd["c"][0]))):
                continue
            dv = nd["c"][1]
            if fn.const_val(dv) is not None:
                continue
            ds = divisor_source(fn, dv)
            if ds is None:
                continue
            src, boxed = ds
            sn = fn.nodes[src]
            cx = ctx_of(fn)
            at = enclosing_elem(fn, i, cx.pos)
            if at is None or at[0] not in cx.reach:
                continue
            stat.sites += 1
            stat.obligations += 1
            if nonzero_guarded(cx, src, boxed, at):
                stat.discharged += 1
                stat.sample({"site": fn.where(i), "function": fn.name, "divisor": fn.txt(dv)[:40], "verdict": "non-zero test dominates"}, limit=6)
                continue
            if sn["k"] == "ref" and sn.get("d") in fn.params:
                k = fn.params.index(sn["d"])
                unsafe.setdefault(fn.name, {}).setdefault(k, (fn.where(i), "divides by %s" % fn.txt(dv)[:40]))
                stat.discharged += 1      # the obligation moves to the callers
                continue
            findings.append((fn, i, "%s divides by %s, the unboxed value of %s, with no test that it is not zero on every path"
                             % (fn.name, fn.txt(dv)[:40], fn.txt(src)[:40]), "divisor %s" % fn.txt(src)[:40]))
    # 2. propagate through call sites
    changed = True
    rounds = 0
    seen_sites = set()
    while changed and rounds < 8:
        changed = False
        rounds += 1
        for fn in funcs:
            for i, nd in enumerate(fn.nodes):
                if nd["k"] != "call" or nd.get("o") not in unsafe:
                    continue
                callee = nd["o"]
                args = nd["c"][1:]
                for k, (w, why) in list(unsafe[callee].items()):
                    if k >= len(args) or (fn.name, i, k) in seen_sites:
                        continue
                    a = args[k]
                    cv = fn.const_val(a)
                    if cv is not None:
                        seen_sites.add((fn.name, i, k))
                        if cv in (0, SEXP_ZERO_WORD) and fn.type(fn.strip(a)) == c01i.SEXP_T and cv == SEXP_ZERO_WORD or cv == 0:
                            findings.append((fn, i, "%s passes the constant zero to %s, which %s" % (fn.name, callee, why),
                                             "zero to %s" % callee))
                        continue
                    cx = ctx_of(fn)
                    at = enclosing_elem(fn, i, cx.pos)
                    if at is None or at[0] not in cx.reach:
                        seen_sites.add((fn.name, i, k))
                        continue
                    boxed = fn.type(fn.strip(a)) == c01i.SEXP_T or fn.type(a) == c01i.SEXP_T
                    src = _single_def(fn, a)
                    if boxed:
                        # an argument that is itself boxed from an integer: box(n) is zero iff n is
                        inner = c01i.box_operand(fn, src)
                        if inner is not None:
                            src, boxed = _single_def(fn, inner), False
                    a0 = fn.strip(a)
                    stat.sites += 1
                    stat.obligations += 1
                    seen_sites.add((fn.name, i, k))
                    if nonzero_guarded(cx, a0, fn.type(a0) == c01i.SEXP_T, at) or nonzero_guarded(cx, src, boxed, at):
                        stat.discharged += 1
                        continue
                    sn = fn.nodes[fn.strip(a)]
                    if sn["k"] == "ref" and sn.get("d") in fn.params:
                        kk = fn.params.index(sn["d"])
                        if kk not in unsafe.setdefault(fn.name, {}):
                            unsafe[fn.name][kk] = (fn.where(i), "hands it to %s, which %s" % (callee, why))
                            changed = True
                        stat.discharged += 1
                        continue
                    findings.append((fn, i, "%s passes %s to %s without a test that it is not zero on every path; %s %s (at %s)"
                                     % (fn.name, fn.txt(a)[:40], callee, callee, why, w), "%s to %s" % (fn.txt(a)[:30], callee)))
    # 3. zero-unsafe parameters of entry points
    for (f, name, kind) in (entry_names or []):
        for k, (w, why) in unsafe.get(f.name, {}).items():
            if k < 3:
                continue        # ctx, self, n
            findings.append((f, None, "%s (%s) is called by the VM with the program's own argument in parameter `%s`, and %s (at %s) "
                             "without a test that it is not zero" % (f.name, name, f.vars[f.params[k]]["n"], why, w),
                             "parameter %s" % f.vars[f.params[k]]["n"]))
    done = set()
    for (fn, i, msg, disc) in findings:
        key = (fn.name, disc)
        if key in done:
            continue
        done.add(key)
        res.add(Finding(prop, rule + ".division-by-unchecked-value", fn.name, disc, fn.where(i) if i is not None else fn.where(),
                        msg + ": a zero there raises SIGFPE and kills the host process instead of signalling `divide by zero`",
                        unit=fn.unit.display, advisory=bool(advisory and advisory(fn))))
    stat.unsafe = {k: sorted(v) for k, v in unsafe.items()}
    return stat


# ------------------------------------------------------------------ C01.q: immediates handed to dereferencing parameters
def run_q(prog, res, floor=0, prop="C01", rule="C01.q", units=None):
    """A function that reads a field of a `sexp` parameter on some path before any branch looks at that parameter
    expects a heap object there.  A call site that passes an immediate constant (SEXP_FALSE, SEXP_NULL, SEXP_VOID,
    NULL ...) for it - directly, or through a caller parameter that is handed on just as blindly - dereferences a
    small integer as a pointer whenever that path runs."""
    from cfg import elem_positions, reach_without
    stat = res.stat(rule, "immediate constants are not passed to parameters the callee dereferences without looking at them",
                    floor=floor)
    funcs = [f for f in prog.all_funcs() if f.blocks and (units is None or f.unit.name in units)]
    IMM = {}
    for name in ("SEXP_FALSE", "SEXP_TRUE", "SEXP_NULL", "SEXP_EOF", "SEXP_VOID"):
        IMM[_imm_word(name)] = name
    IMM[0] = "NULL"
    poses = {}

    def blind_reach(fn, p, target):
        """target is reachable from the entry without passing a branch that mentions p or a store to p"""
        if fn not in poses:
            poses[fn] = elem_positions(fn)
        pos = poses[fn]
        kills = set()
        for b in fn.blocks.values():
            if b.cond is not None and p in fn.refs_in(b.cond):
                kills.add((b.id, len(b.elems)))
        for j, nd in enumerate(fn.nodes):
            if nd["k"] == "bin" and nd["o"] == "=":
                l = fn.strip(nd["c"][0])
                if fn.nodes[l]["k"] == "ref" and fn.nodes[l].get("d") == p:
                    q = enclosing_elem(fn, j, pos)
                    if q:
                        kills.add(q)
        q = enclosing_elem(fn, target, pos)
        return q is not None and reach_without(fn, (fn.entry, -1), q, kills)
    unsafe = {}
    for fn in funcs:
        for k, p in enumerate(fn.params):
            if k == 0 or fn.var_type(p) != c01i.SEXP_T:
                continue
            for j, nd in enumerate(fn.nodes):
                if nd["k"] == "mem" and nd.get("ar"):
                    r = fn.strip(nd["c"][0])
                    if fn.nodes[r]["k"] == "ref" and fn.nodes[r].get("d") == p and blind_reach(fn, p, j):
                        unsafe.setdefault(fn.name, {})[k] = ("reads %s" % fn.txt(j)[:50], fn.where(j), fn.name, fn.vars[p]["n"])
                        break
    changed = True
    rounds = 0
    while changed and rounds < 6:
        changed = False
        rounds += 1
        for fn in funcs:
            for j, nd in enumerate(fn.nodes):
                if nd["k"] != "call" or nd.get("o") not in unsafe:
                    continue
                args = nd["c"][1:]
                for k, (why, w, rf, rp) in list(unsafe[nd["o"]].items()):
                    if k >= len(args):
                        continue
                    a = fn.strip(args[k])
                    if fn.nodes[a]["k"] == "ref" and fn.nodes[a].get("d") in fn.params:
                        p = fn.nodes[a]["d"]
                        kk = fn.params.index(p)
                        if kk == 0 or kk in unsafe.get(fn.name, {}):
                            continue
                        if blind_reach(fn, p, j):
                            unsafe.setdefault(fn.name, {})[kk] = ("hands it to %s, which %s" % (nd["o"], why), w, rf, rp)
                            changed = True
    roots = {}
    for fn in funcs:
        for j, nd in enumerate(fn.nodes):
            if nd["k"] != "call" or nd.get("o") not in unsafe:
                continue
            args = nd["c"][1:]
            for k, (why, w, rf, rp) in unsafe[nd["o"]].items():
                if k >= len(args):
                    continue
                stat.sites += 1
                cv = fn.const_val(args[k])
                if cv not in IMM or fn.type(fn.strip(args[k])) not in (c01i.SEXP_T, "void *", "int", "long"):
                    continue
                stat.obligations += 1
                roots.setdefault((rf, rp, w), []).append((fn, j, nd["o"], k, IMM[cv], why))
    # one finding per dereferencing site: the call sites are listed in its message
    for (rf, rp, w), sites in sorted(roots.items()):
        fn, j, callee, k, imm, why = sites[0]
        res.add(Finding(prop, rule + ".immediate-dereferenced", rf, "parameter %s" % rp,
                        w, "%s reads a field of its parameter `%s` (at %s) before any test of it, and %s passes %s as argument %d "
                        "of %s, which %s (%d such call sites: %s): on that path an immediate is dereferenced as a heap pointer"
                        % (rf, rp, w, fn.name, imm, k, callee, why, len(sites),
                           ", ".join(sorted({"%s %s" % (f.name, f.where(jj)) for (f, jj, _c, _k, _i, _w) in sites})[:6])),
                        unit=fn.unit.display))
    stat.discharged = stat.obligations - sum(len(v) for v in roots.values())
    return stat


def _imm_word(name):
    # ((n << 8) + 62): the extended immediates of sexp.h
    order = {"SEXP_FALSE": 0, "SEXP_TRUE": 1, "SEXP_NULL": 2, "SEXP_EOF": 3, "SEXP_VOID": 4}
    return (order[name] << 8) + 62


# ------------------------------------------------------------------ C01.r: the context's type table
def _reach_without(fn, a, b, kills):
    from cfg import reach_without
    return reach_without(fn, a, b, kills)


def run_r(prog, res, floor=1, prop="C01", rule="C01.r", advisory=None):
    """the context's table of types is indexed with type ids; where the id comes from the program (the unboxed
    value of an operand: `{Name #id ...}` in source text, lookup-type) the index must be shown to satisfy
    0 <= id < number of types on every path"""
    from rules.c01i import canon, guard_facts, bounds, tainted_locals, direct_refs
    stat = res.stat(rule, "indexes into the context's type table that carry the unboxed value of an operand are dominated by "
                    "0 <= index < number of types", floor=floor)
    for fn in prog.all_funcs():
        if not fn.blocks:
            continue
        cx = None
        tl = None
        for i, nd in enumerate(fn.nodes):
            if nd["k"] != "idx" or fn.const_val(nd["c"][1]) is not None:
                continue
            if "SEXP_G_TYPES" not in fn.txt(nd["c"][0]):
                continue
            ix = nd["c"][1]
            cx = cx or Ctx(fn)
            at0 = enclosing_elem(fn, i, cx.pos)
            if at0 is None:
                continue

            def param_unbox(n):
                for x in fn.subtree(n):
                    if fn.nodes[x]["k"] == "bin":
                        u = unbox_operand(fn, x)
                        if u is not None:
                            u = fn.strip(u)
                            if fn.nodes[u]["k"] == "ref" and fn.nodes[u].get("d") in fn.params:
                                return True
                return False
            # the index itself, or a definition of one of its locals that reaches this point, unboxes a parameter
            tainted = param_unbox(ix)
            for vid in direct_refs(fn, fn.strip(ix)):
                if tainted or vid in fn.params:
                    continue
                ds = [(d, rhs, p) for (d, rhs, p) in cx.defs(vid) if p is not None]
                allp = {p for (_d, _r, p) in ds}
                for (d, rhs, p) in ds:
                    if rhs is not None and param_unbox(rhs) and _reach_without(fn, p, at0, allp - {p}):
                        tainted = True
                        break
            if not tainted:
                continue
            at = enclosing_elem(fn, i, cx.pos)
            if at is None or at[0] not in cx.reach:
                continue
            stat.sites += 1
            stat.obligations += 1
            facts = guard_facts(cx, at)
            I = canon(cx, ix, at)
            lens = {t for (E, _s, _u) in facts for t in E[1] if "SEXP_G_NUM_TYPES" in str(t)}
            lower = upper = None
            for lt in lens or {"?"}:
                lo, up = bounds(facts, I, lt)
                lower = lower or lo
                if up is not None:
                    upper = up if upper is None else min(upper, up)
            if lower and upper is not None and upper <= -1:
                stat.discharged += 1
                stat.sample({"site": fn.where(i), "function": fn.name, "index": fn.txt(ix)[:30]})
                continue
            what = []
            if not lower:
                what.append("0 <= %s" % fn.txt(ix)[:30])
            if upper is None or upper > -1:
                what.append("%s < number of types" % fn.txt(ix)[:30])
            res.add(Finding(prop, rule + ".type-id-unchecked", fn.name, "index %s" % fn.txt(ix)[:30], fn.where(i),
                            "%s indexes the context's type table with %s, which carries the unboxed value of an operand; not "
                            "established on every path: %s - an id outside the table reads a type pointer from unrelated memory"
                            % (fn.name, fn.txt(ix)[:30], " and ".join(what)), unit=fn.unit.display,
                            advisory=bool(advisory and advisory(fn))))
    return stat
