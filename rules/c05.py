"""C05 - tail calls in constant space: the compiler half (rule family F6).

a. tail-flag dataflow through the code generator: the abstract value of
   sexp_context_tailp(ctx) in {ENTRY, 0, 1, clobbered} at every call that generates a
   sub-expression must match the role of that sub-expression (test / operand / non-last
   statement: 0; consequent, alternative, last statement: ENTRY; lambda body: 1)
b. SEXP_OP_TAIL_CALL is emitted only under a condition on the saved entry flag
c. in the VM, the TAIL_CALL and APPLY1 cases re-base `top` on the caller's frame (an
   assignment to `top` from `fp` dominates the jump to make_call)
"""
import tables
from cfg import dominators, elem_positions, enclosing_elem, dominates, block_reach
from report import Finding
from extract import AnalysisBroken

# callees that generate code for an AST (sub-)expression; the other generate_* helpers emit fixed code
SUBEXPR_GENERATORS = {"sexp_generate", "generate_lambda_body", "generate_lambda_locals", "generate_app", "generate_cnd",
                      "generate_seq", "generate_set", "generate_lambda", "generate_general_app", "generate_opcode_app",
                      "generate_tail_jump"}
E = "ENTRY"
CLOB = "clobbered"


def is_tailp(fn, n):
    n = fn.strip(n)
    if fn.nodes[n]["k"] == "mem" and fn.nodes[n]["o"] == "tailp":
        root, path = fn.mempath(n)
        if path == ["value", "context", "tailp"]:
            return fn.txt(root)
    return None


def generator_functions(prog):
    u = prog.unit("vm.c")
    if u is None:
        raise AnalysisBroken("vm.c not parsed")
    out = {}
    for name, fn in u.functions.items():
        if name == "sexp_generate" or name.startswith("generate_"):
            out[name] = fn
    if "sexp_generate" not in out or "generate_cnd" not in out or "generate_seq" not in out:
        raise AnalysisBroken("anchor vanished: sexp_generate / generate_cnd / generate_seq")
    return out


def in_loop_blocks(fn):
    s = set()
    for b in fn.blocks:
        if b in block_reach(fn, b):
            s.add(b)
    return s


def flow(fn, gens, summaries=None):
    """forward dataflow; returns {call node: (ctx text, frozenset of possible flag values)}"""
    summaries = summaries or {}
    ctxp = fn.vars[fn.params[0]]["n"] if fn.params else None
    init = {("flag", ctxp): frozenset([E])} if ctxp else {}
    order = fn.rpo()
    instate = {fn.entry: init}
    result = {}
    changed = True
    rounds = 0

    def val_of(state, n):
        n = fn.strip(n)
        nd = fn.nodes[n]
        c = fn.const_val(n)
        if c is not None:
            return frozenset([1 if c else 0])
        if nd["k"] == "ref" and "d" in nd:
            return state.get(("loc", nd["d"]), frozenset([CLOB]))
        t = is_tailp(fn, n)
        if t is not None:
            return state.get(("flag", t), frozenset([CLOB]))
        return frozenset([CLOB])

    def step(state, e, record):
        nd = fn.nodes[e]
        k = nd["k"]
        if k == "decl" and "d" in nd and nd.get("c"):
            t = is_tailp(fn, nd["c"][0])
            if t is not None:
                state[("loc", nd["d"])] = state.get(("flag", t), frozenset([CLOB]))
        elif k == "bin" and nd["o"] == "=":
            lhs = fn.strip(nd["c"][0])
            ln = fn.nodes[lhs]
            t = is_tailp(fn, lhs)
            if t is not None:
                state[("flag", t)] = val_of(state, nd["c"][1])
            elif ln["k"] == "ref" and "d" in ln:
                tr = is_tailp(fn, nd["c"][1])
                if tr is not None:
                    state[("loc", ln["d"])] = state.get(("flag", tr), frozenset([CLOB]))
                elif ("loc", ln["d"]) in state:
                    del state[("loc", ln["d"])]
        elif k == "call" and nd.get("o") in gens:
            args = nd["c"][1:]
            if args:
                ct = fn.txt(args[0])
                cur = state.get(("flag", ct), frozenset([CLOB]))
                if record:
                    result[e] = (ct, cur)
                # summary of every generator function (verified by run_a on each of them): on return the
                # flag is either what it was on entry or 0 - callees lower it, never raise it; a callee whose own
                # exits were shown to leave the entry value only (a helper that emits fixed code) changes nothing
                summ = summaries.get(nd.get("o"), frozenset([E, 0]))
                state[("flag", ct)] = (cur if E in summ else frozenset()) | (frozenset([0]) if 0 in summ else frozenset())

    while changed and rounds < 60:
        changed = False
        rounds += 1
        for b in order:
            st = instate.get(b)
            if st is None:
                continue
            st = dict(st)
            for e in fn.blocks[b].elems:
                step(st, e, False)
            for s in fn.blocks[b].succs:
                if s is None or s < 0 or s == fn.exit:
                    continue
                old = instate.get(s)
                if old is None:
                    instate[s] = dict(st)
                    changed = True
                else:
                    new = dict(old)
                    for key in set(old) | set(st):
                        v = old.get(key, frozenset([CLOB])) | st.get(key, frozenset([CLOB]))
                        if new.get(key) != v:
                            new[key] = v
                            changed = True
                    instate[s] = new
    exits = {}
    for b in order:
        st = instate.get(b)
        if st is None:
            continue
        st = dict(st)
        for e in fn.blocks[b].elems:
            step(st, e, True)
        if fn.exit in fn.blocks[b].succs and ctxp:
            exits[b] = st.get(("flag", ctxp), frozenset([CLOB]))
    result["__exits__"] = exits
    return result


def role_of(fn, call, loops, pos):
    """required flag values for the sub-expression generated by this call, or None"""
    nd = fn.nodes[call]
    args = nd["c"][1:]
    txt = " ".join(fn.txt(a) for a in args[1:])
    name = fn.name
    here = enclosing_elem(fn, call, pos)
    inloop = here is not None and here[0] in loops
    if name == "generate_cnd":
        if "cnd.test" in txt:
            return {0}, "test of if"
        if "cnd.pass" in txt or "cnd.fail" in txt:
            return {E}, "branch of if"
    if name == "generate_seq":
        return ({0}, "non-last statement of a sequence") if inloop else ({E}, "last statement of a sequence")
    if name in ("generate_set", "generate_general_app", "generate_opcode_app", "generate_tail_jump"):
        return {0}, "operand / operator / assigned value"
    if name == "generate_lambda":
        if "lambda.body" in txt:
            if nd.get("o") == "generate_lambda_locals":
                return {0}, "hoisted local definitions"
            return {1}, "body of a lambda"
    if name == "generate_lambda_body":
        if nd.get("o") == "generate_lambda_body" and inloop:
            return {0, E}, "body statement (last one gets the entry flag)"
        if nd.get("o") == "sexp_generate":
            return ({0}, "non-last body statement") if inloop else ({E, 0}, "last/only body statement")
    # pass-through: the callee receives this function's own AST parameter
    bare = [a for a in args[1:] if fn.nodes[fn.strip(a)]["k"] == "ref" and fn.nodes[fn.strip(a)].get("d") in fn.params]
    if bare and len(bare) == len([a for a in args[1:] if fn.type(fn.strip(a)) == tables.SEXP_T]):
        return {E}, "dispatch of the same expression"
    return None, None


def run_a(prog, res):
    stat = res.stat("C05.a", "tail flag seen by every sub-expression generation call matches the sub-expression's role",
                    floor=15)
    gens = generator_functions(prog)
    names = set(gens)
    # per-callee summaries, refined from the verified default {ENTRY, 0}: a function all of whose exits keep the
    # entry value (under the summaries known so far) is recorded as flag-preserving; every step of the refinement
    # is justified by an analysis under summaries that are themselves sound
    summaries = {}
    for _round in range(3):
        changed = False
        for name, fn in sorted(gens.items()):
            if name in summaries or not fn.params or fn.var_type(fn.params[0]) != tables.SEXP_T:
                continue
            ex = flow(fn, names, summaries).get("__exits__", {})
            if ex and all(v <= {E} for v in ex.values()):
                summaries[name] = frozenset([E])
                changed = True
        if not changed:
            break
    for name, fn in sorted(gens.items()):
        calls = flow(fn, names, summaries)
        exits = calls.pop("__exits__", {})
        # the summary used at call sites: a generator function returns with the flag at its entry value or 0
        if fn.params and fn.var_type(fn.params[0]) == tables.SEXP_T:
            stat.obligations += 1
            badx = {b: v for b, v in exits.items() if not v <= {E, 0}}
            if not badx:
                stat.discharged += 1
            else:
                b0 = sorted(badx)[0]
                res.add(Finding("C05", "C05.a.flag-raised-on-return", name, "return with flag %s" % sorted(map(str, badx[b0])),
                                fn.where(), "%s may return with the context's tail flag %s: callers assume a generator "
                                "function leaves the flag at its entry value or 0" % (name, sorted(map(str, badx[b0]))),
                                unit="vm.c"))
        if not calls:
            continue
        loops = in_loop_blocks(fn)
        pos = elem_positions(fn)
        for call, (ctxt, vals) in sorted(calls.items()):
            stat.sites += 1
            if fn.nodes[call].get("o") not in SUBEXPR_GENERATORS:
                continue
            want, why = role_of(fn, call, loops, pos)
            if want is None:
                continue
            stat.obligations += 1
            if vals <= want:
                stat.discharged += 1
                stat.sample({"site": fn.where(call), "function": name, "generates": fn.txt(call)[:70], "role": why,
                             "flag": sorted(map(str, vals))}, limit=8)
            else:
                res.add(Finding("C05", "C05.a.tail-flag", name, "%s: %s" % (why, fn.txt(call)[:60]), fn.where(call),
                                "%s generates a sub-expression in the role `%s` while the context's tail flag may be %s "
                                "(required: %s): %s" % (name, why, sorted(map(str, vals)), sorted(map(str, want)),
                                                        "a call in tail position would be compiled as a non-tail call and grow the stack"
                                                        if (E in want or 1 in want) else
                                                        "a non-tail call could be compiled as TAIL_CALL and destroy the caller's frame"),
                                unit="vm.c"))
    return stat


def run_b(prog, res):
    stat = res.stat("C05.b", "SEXP_OP_TAIL_CALL is emitted only under a test of the saved entry tail flag", floor=1)
    gens = generator_functions(prog)
    enum = dict(tables.enum_values(prog, const_prefix="SEXP_OP_NOOP"))
    tc = enum.get("SEXP_OP_TAIL_CALL")
    if tc is None:
        raise AnalysisBroken("anchor vanished: SEXP_OP_TAIL_CALL")
    found = 0
    for u in prog.units:
        for fn in u.functions.values():
            for i, nd in enumerate(fn.nodes):
                if nd["k"] != "call" or nd.get("o") != "sexp_emit" or len(nd["c"]) < 3:
                    continue
                arg = fn.strip(nd["c"][2])
                consts = {fn.nodes[x].get("v") for x in fn.subtree(arg) if "v" in fn.nodes[x]}
                if tc not in consts:
                    continue
                found += 1
                stat.sites += 1
                stat.obligations += 1
                an = fn.nodes[arg]
                ok = False
                if an["k"] == "cond":
                    # the condition must mention a local that was loaded from the tail flag
                    flagvars = set()
                    for j, n2 in enumerate(fn.nodes):
                        if n2["k"] == "bin" and n2["o"] == "=" and is_tailp(fn, n2["c"][1]) is not None:
                            l = fn.strip(n2["c"][0])
                            if fn.nodes[l]["k"] == "ref" and "d" in fn.nodes[l]:
                                flagvars.add(fn.nodes[l]["d"])
                        if n2["k"] == "decl" and n2.get("c") and is_tailp(fn, n2["c"][0]) is not None:
                            flagvars.add(n2["d"])
                    ok = bool(fn.refs_in(an["c"][0]) & flagvars) and fn.const_val(an["c"][1]) == tc
                if ok:
                    stat.discharged += 1
                    stat.sample({"site": fn.where(i), "function": fn.name, "emit": fn.txt(arg)[:80]})
                else:
                    res.add(Finding("C05", "C05.b.unconditional-tail-call", fn.name, "emit TAIL_CALL", fn.where(i),
                                    "%s emits SEXP_OP_TAIL_CALL without testing the tail flag saved on entry: a call in "
                                    "non-tail position would reuse (destroy) the caller's frame" % fn.name, unit=u.display))
    if not found:
        raise AnalysisBroken("anchor vanished: no emission of SEXP_OP_TAIL_CALL found")
    return stat


def run_c(prog, res):
    stat = res.stat("C05.c", "VM: TAIL_CALL / APPLY1 assign `top` from `fp` before jumping to make_call", floor=2)
    fn = prog.func("sexp_apply")
    enum = dict(tables.enum_values(prog, const_prefix="SEXP_OP_NOOP"))
    topv = [i for i, v in enumerate(fn.vars) if v["n"] == "top" and v["k"] == "l"][0]
    fpv = [i for i, v in enumerate(fn.vars) if v["n"] == "fp" and v["k"] == "l"][0]
    pos = elem_positions(fn)
    dom = dominators(fn)
    # locals every definition of which is computed from fp (`frame_base = fp - j`) stand for fp
    defs = {}
    for nd in fn.nodes:
        if nd["k"] == "decl" and "d" in nd and nd.get("c"):
            defs.setdefault(nd["d"], []).append(nd["c"][0])
        elif nd["k"] == "bin" and nd["o"] == "=":
            l = fn.strip(nd["c"][0])
            if fn.nodes[l]["k"] == "ref" and "d" in fn.nodes[l]:
                defs.setdefault(fn.nodes[l]["d"], []).append(nd["c"][1])
        elif nd["k"] == "bin" and nd["o"].endswith("=") and nd["o"] not in ("==", "!=", "<=", ">="):
            l = fn.strip(nd["c"][0])
            if fn.nodes[l]["k"] == "ref" and "d" in fn.nodes[l]:
                defs.setdefault(fn.nodes[l]["d"], []).append(None)
    fpish = {fpv}
    grew = True
    while grew:
        grew = False
        for vid, ds in defs.items():
            if vid in fpish or vid == topv or vid in fn.params:
                continue
            if ds and all(d is not None and (fn.refs_in(d) & fpish) for d in ds):
                fpish.add(vid)
                grew = True
    for opname in ("SEXP_OP_TAIL_CALL", "SEXP_OP_APPLY1"):
        code = enum.get(opname)
        starts = [b for b in fn.blocks.values() if b.lk == "case" and b.clo == code]
        if not starts:
            raise AnalysisBroken("anchor vanished: VM case %s" % opname)
        stat.sites += 1
        stat.obligations += 1
        # blocks of this case: reachable from its start without passing another case label
        seen = set()
        st = [starts[0].id]
        gotos = []
        rebase = []
        while st:
            bid = st.pop()
            if bid in seen:
                continue
            seen.add(bid)
            b = fn.blocks[bid]
            for e in b.elems:
                nd = fn.nodes[e]
                if nd["k"] == "bin" and nd["o"] == "=":
                    l = fn.strip(nd["c"][0])
                    if fn.nodes[l]["k"] == "ref" and fn.nodes[l].get("d") == topv and (fn.refs_in(nd["c"][1]) & fpish):
                        rebase.append(pos.get(e))
            if b.ln == "goto:make_call":
                gotos.append(bid)
                continue
            if b.ln and b.ln.startswith("goto:"):
                continue
            for s in b.succs:
                if s is not None and s >= 0 and fn.blocks[s].lk not in ("case", "default") and s != fn.exit:
                    st.append(s)
        ok = bool(gotos) and all(any(r and (r[0] == g or r[0] in dom.get(g, ())) for r in rebase) for g in gotos)
        if ok:
            stat.discharged += 1
            stat.sample({"opcode": opname, "goto_make_call_blocks": len(gotos), "top_rebased_from_fp": True})
        else:
            res.add(Finding("C05", "C05.c.frame-not-reused", "sexp_apply", opname, fn.where(),
                            "the VM case %s reaches make_call without first assigning `top` from `fp`: the new frame is "
                            "pushed above the caller's instead of replacing it, so tail calls grow the stack" % opname,
                            unit="vm.c"))
    return stat
