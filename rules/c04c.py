"""C04.c - numbers are immutable: an object that may be (part of) an operand is never modified in place.

Sites: every store to `bignum.sign` / `flonum` value (the in-place negations behind sexp_negate,
sexp_negate_exact, sexp_negate_maybe_ratio and direct sign stores) in the numeric units.
For the object expression E of the store (a local, or a numerator/denominator/real/imag field path
of a local) the rule follows, along every feasible path from the function entry, where E's current
value came from:

  fresh   - the result of an allocation / copy, or of a callee all of whose results are fresh
  input   - a parameter, a field loaded from one, or the result of a callee that may hand back one of
            its arguments (summary computed from the callees' return expressions) applied to such a value

and reports a path on which an `input` value reaches the store.  Paths are pruned when they assume
contradictory outcomes of tag tests on E (`if (sexp_bignump(E)) E = copy(E); ... negate_exact(E)`:
the store sits under bignump(E), the un-copied value only arrives with !bignump(E))."""
from cfg import implied
from report import Finding
from extract import AnalysisBroken
import tables

UNITS = ("bignum.c", "sexp.c", "bit.c", "eval.c", "math.c")
CONSTRUCTORS = {   # constructor -> {field: argument index (after ctx)}
    "sexp_make_ratio": {"numerator": 1, "denominator": 2},
    "sexp_make_complex": {"real": 1, "imag": 2},
}
FRESH_CALLS = {"sexp_make_bignum", "sexp_fixnum_to_bignum", "sexp_double_to_bignum", "sexp_make_flonum", "sexp_alloc_tagged_aux",
               "sexp_make_ratio", "sexp_make_complex", "sexp_make_integer", "sexp_make_unsigned_integer"}
IN_PLACE_FIELDS = (["value", "bignum", "sign"], ["value", "flonum"])


class Summaries:
    """passthrough(f): parameter indexes that some return statement of f hands back as they are
    (`return a;`, `return c ? a : x;`, or a local one of whose definitions is the parameter)"""

    def __init__(self, prog):
        self.prog = prog
        self.cache = {}

    def passthrough(self, fn):
        from cfg import local_defs, elem_positions, enclosing_elem, reach_without
        key = (fn.file, fn.name)
        if key in self.cache:
            return self.cache[key]
        out = set()
        pos = elem_positions(fn)

        def scan(n, at, depth=0):
            n = fn.strip(n)
            nd = fn.nodes[n]
            if nd["k"] == "ref" and "d" in nd:
                v = nd["d"]
                defs = [(d, rhs, enclosing_elem(fn, d, pos)) for (d, rhs) in local_defs(fn, v)]
                if v in fn.params:
                    # the parameter itself, unless it is always overwritten before this point - or the tag tests
                    # that hold at this return leave only kinds that have nothing to modify in place (fixnums, ...)
                    kills = set(p for (_d, _r, p) in defs if p)
                    if at is None or not kills or reach_without(fn, (fn.entry, -1), at, kills):
                        if not self.harmless_at(fn, v, n):
                            out.add(fn.params.index(v))
                if depth < 2 and at is not None:
                    for (d, rhs, pd) in defs:
                        if rhs is None or pd is None or fn.nodes[fn.strip(rhs)]["k"] not in ("ref", "cond"):
                            continue
                        kills = set(p for (d2, _r, p) in defs if p and d2 != d)
                        if reach_without(fn, pd, at, kills):
                            scan(rhs, pd, depth + 1)
            elif nd["k"] == "cond":
                scan(nd["c"][1], at, depth)
                scan(nd["c"][2], at, depth)
        for i, nd in enumerate(fn.nodes):
            if nd["k"] == "ret" and nd.get("c"):
                scan(nd["c"][0], enclosing_elem(fn, i, pos))
        self.cache[key] = out
        return out

    def harmless_at(self, fn, v, ref_node):
        """the kinds parameter v can have where ref_node is evaluated contain no number with in-place state
        (flonum, bignum, ratio, complex): handing it back shares nothing that could be modified"""
        from kinds import KindModel, KindAnalysis
        key = (fn.file, fn.name, v)
        if not hasattr(self, "_ka"):
            self._ka = {}
            self._model = KindModel(self.prog)
        m = self._model
        if key not in self._ka:
            ka = KindAnalysis(m, fn, {v: m.U})
            for i, nd in enumerate(fn.nodes):
                if nd["k"] == "ret" and nd.get("c"):
                    for x in fn.subtree(nd["c"][0]):
                        if fn.nodes[x]["k"] == "ref" and fn.nodes[x].get("d") == v:
                            ka.probes[i] = x
            try:
                ka.run()
            except Exception:
                ka.probe_results = {}
            self._ka[key] = ka
        ka = self._ka[key]
        heavy = set()
        for mem in ("flonum", "bignum", "ratio", "complex"):
            heavy |= set(m.member_tags.get(mem, set()))
        if self.only_called_with_complex_parts(fn, v):
            # the real / imaginary part of a complex number is a real number, never a complex one
            heavy -= set(m.member_tags.get("complex", set()))
        for i, x in ka.probes.items():
            if x == ref_node or ref_node in fn.subtree(fn.nodes[i]["c"][0]):
                ks = ka.probe_results.get(i)
                if ks is not None and not (ks & heavy):
                    return True
        return False

    def only_called_with_complex_parts(self, fn, v):
        """every call of fn in its unit passes `X->value.complex.real` or `.imag` for parameter v (and there is one)"""
        key = ("parts", fn.file, fn.name, v)
        if key in self.cache:
            return self.cache[key]
        k = fn.params.index(v)
        n = 0
        ok = True
        for g in fn.unit.func_list:
            if not g.blocks:
                continue
            for nd in g.nodes:
                if nd["k"] == "call" and nd.get("o") == fn.name:
                    args = nd["c"][1:]
                    if k >= len(args):
                        ok = False
                        continue
                    a = g.strip(args[k])
                    if g.nodes[a]["k"] == "mem":
                        _r, path = g.mempath(a)
                        if path in (["value", "complex", "real"], ["value", "complex", "imag"]):
                            n += 1
                            continue
                    ok = False
        self.cache[key] = ok and n > 0
        return self.cache[key]

    def constructed(self, callee):
        """callee returns an object it built with a constructor of CONSTRUCTORS: {field: origins of the field's
        contents at the return, in the callee's own parameter space} - the constructor argument, or what the
        callee stored into that field of the result afterwards (the last such store on the way to the return)"""
        from cfg import local_defs
        key = ("constructed", callee.file, callee.name)
        if key in self.cache:
            return self.cache[key]
        self.cache[key] = None
        rets = [callee.strip(nd["c"][0]) for nd in callee.nodes if nd["k"] == "ret" and nd.get("c")]
        vs = {callee.nodes[r].get("d") for r in rets if callee.nodes[r]["k"] == "ref"}
        if len(rets) == 0 or len(vs) != 1 or None in vs or any(callee.nodes[r]["k"] != "ref" for r in rets):
            return None
        v = next(iter(vs))
        defs = [rhs for (_d, rhs) in local_defs(callee, v) if rhs is not None and callee.const_val(rhs) is None]
        if len(defs) != 1:
            return None
        c = callee.strip(defs[0])
        cn = callee.nodes[c]
        if cn["k"] != "call" or cn.get("o") not in CONSTRUCTORS:
            return None
        args = cn["c"][1:]
        out = {}
        for fld, k in CONSTRUCTORS[cn["o"]].items():
            if k < len(args):
                out[fld] = set(self.expr(callee, args[k], 1, set()))
        # stores res->value.X.fld = rhs : unconditional stores replace, conditional ones add
        for nd in callee.nodes:
            if nd["k"] == "bin" and nd["o"] == "=":
                l = callee.strip(nd["c"][0])
                if callee.nodes[l]["k"] == "mem":
                    root, path = callee.mempath(l)
                    r0 = callee.strip(root)
                    if callee.nodes[r0]["k"] == "ref" and callee.nodes[r0].get("d") == v and len(path) == 3 and path[2] in out:
                        out[path[2]] = set(self.expr(callee, nd["c"][1], 1, set()))
        self.cache[key] = out
        return out

    def expr(self, fn, n, depth, seen, st=None):
        """origins of the value of expression n: subset of {'fresh','imm','input'}"""
        from cfg import local_defs
        n = fn.strip(n)
        nd = fn.nodes[n]
        k = nd["k"]
        if st is not None and fn.txt(n) in st:
            return set(st[fn.txt(n)])
        if depth > 8:
            return {"fresh"}
        if fn.const_val(n) is not None:
            return {"imm"}
        if k == "ref" and "d" in nd:
            v = nd["d"]
            if v in fn.params:
                out0 = {("in", fn.params.index(v), "self")}
                # a parameter that is re-assigned also carries what it was assigned
                from cfg import local_defs as _ld
                for (_d, rhs) in _ld(fn, v):
                    if rhs is not None and v not in seen:
                        out0 |= self.expr(fn, rhs, depth + 1, seen | {v}, st)
                return out0
            if v in seen:
                return set()
            out = set()
            for (_d, rhs) in local_defs(fn, v):
                if rhs is not None:
                    out |= self.expr(fn, rhs, depth + 1, seen | {v}, st)
            return out or {"fresh"}
        if k == "mem":
            o2, _p = fn.mempath(n)
            # a part of X is as shared as X
            return {(("in", o[1], "part") if isinstance(o, tuple) else o) for o in self.expr(fn, o2, depth + 1, seen, st)}
        if k == "cond":
            return self.expr(fn, nd["c"][1], depth + 1, seen, st) | self.expr(fn, nd["c"][2], depth + 1, seen, st)
        if k == "bin" and nd["o"] in ("=", ","):
            return self.expr(fn, nd["c"][1], depth + 1, seen, st)
        if k == "bin":
            return {"imm"}
        if k == "call":
            name = nd.get("o")
            args = nd["c"][1:]
            if name in FRESH_CALLS:
                return {"fresh"}
            callee = self.prog.func(name, fn.unit) if name else None
            if callee is None or not callee.blocks:
                return {"fresh"}
            out = {"fresh"}
            for kk in self.passthrough(callee):
                if kk < len(args):
                    if fn.const_val(args[kk]) == 0:
                        continue          # dst-or-fresh idiom: a literal NULL destination means the callee allocated
                    out |= self.expr(fn, args[kk], depth + 1, seen, st)
            return out
        if k == "un" and nd["o"] == "*":
            return self.expr(fn, nd["c"][0], depth + 1, seen, st)
        return {"fresh"}


_EFFECTS = {}


def field_effects(prog, S, g):
    """stores the helper g makes into fields of the object a parameter points to, when the stored value is fresh:
    [(parameter index, lvalue text suffix after the parameter name)].  A store guarded only by a tag test of the
    same field ("copy it if it is a heap object") counts: only heap objects can be modified in place, so after the
    call every value of that field that matters is a fresh copy."""
    key = (g.file, g.name)
    if key in _EFFECTS:
        return _EFFECTS[key]
    out = []
    pnames = {g.vars[v]["n"]: k for k, v in enumerate(g.params)}
    for i, nd in enumerate(g.nodes):
        if nd["k"] != "bin" or nd["o"] != "=":
            continue
        l = g.strip(nd["c"][0])
        if g.nodes[l]["k"] != "mem":
            continue
        root = l
        while g.nodes[root]["k"] == "mem":
            o2, _p = g.mempath(root)
            root = g.strip(o2)
        rn = g.nodes[root]
        if rn["k"] != "ref" or rn.get("d") not in g.params or any(True for (_d, _r) in __import__("cfg").local_defs(g, rn["d"])):
            continue
        o = S.expr(g, nd["c"][1], 0, set())
        if o and all(x in ("fresh", "imm") for x in o):
            lt = g.txt(l)
            pn = g.vars[rn["d"]]["n"]
            if lt.startswith(pn):
                out.append((g.params.index(rn["d"]), lt[len(pn):]))
    _EFFECTS[key] = out
    return out


def shared(origins):
    return [o for o in origins if isinstance(o, tuple)]


ENTRY_EXTRA = ("sexp_add", "sexp_sub", "sexp_mul", "sexp_div", "sexp_quotient", "sexp_remainder", "sexp_compare",
               "sexp_expt_op", "sexp_exact_sqrt", "sexp_exact_to_inexact", "sexp_inexact_to_exact", "sexp_to_inexact",
               "sexp_ratio_round", "sexp_ratio_floor", "sexp_ratio_ceiling", "sexp_ratio_truncate", "sexp_number_to_string_op")


def run(prog, res, floor=10, prims=None):
    """M[f] = parameters of f whose object ('self') or an object reachable from it ('part') may be modified in
    place - directly, or by handing it to a callee that does.  A function Scheme code can reach with its own
    values (VM arithmetic entry points, opcodes[] / foreign functions) must have M[f] empty."""
    stat = res.stat("C04.c", "numbers are immutable: no entry point of the arithmetic modifies (a part of) an operand in "
                    "place; in-place stores and destination parameters are followed through the helpers to their callers",
                    floor=floor)
    S = Summaries(prog)
    _EFFECTS.clear()
    funcs = [fn for fn in prog.all_funcs() if fn.unit.name in UNITS and fn.blocks]
    M = {}          # (file, name) -> {(k, depth): (witness text)}
    # 1. direct stores
    nsites = 0
    for fn in funcs:
        for i, nd in enumerate(fn.nodes):
            if nd["k"] == "bin" and nd["o"].endswith("=") and nd["o"] not in ("==", "!=", "<=", ">="):
                l = fn.strip(nd["c"][0])
                if fn.nodes[l]["k"] != "mem":
                    continue
                o2, path = fn.mempath(l)
                if path in IN_PLACE_FIELDS or (path[:2] == ["value", "flonum"] and len(path) <= 2):
                    nsites += 1
                    toks = explore(prog, S, fn, i, fn.strip(o2))
                    for t in (toks or ()):
                        M.setdefault((fn.file, fn.name), {}).setdefault((t[1], t[2]),
                            "stores %s of %s at %s" % (".".join(path[1:]), fn.txt(fn.strip(o2))[:50], fn.where(i)))
    # 2. through calls, to a fixpoint
    def arg_tokens(fn, a, depth):
        """tokens of the object a callee would modify: depth 'self' = the argument object itself, 'part' = objects
        stored in it (for a constructor call: its component arguments)"""
        a0 = fn.strip(a)
        an = fn.nodes[a0]
        if depth == "part":
            cands = [a0]
            if an["k"] == "ref" and "d" in an and an["d"] not in fn.params:
                from cfg import local_defs
                cands = [fn.strip(r) for (_d, r) in local_defs(fn, an["d"]) if r is not None]
            out = set()
            for c in cands:
                cn = fn.nodes[c]
                if cn["k"] == "bin" and cn["o"] == "=":
                    c = fn.strip(cn["c"][1])
                    cn = fn.nodes[c]
                if cn["k"] == "call" and cn.get("o") in CONSTRUCTORS:
                    for kk in CONSTRUCTORS[cn["o"]].values():
                        args = cn["c"][1:]
                        if kk < len(args):
                            out |= {t for t in S.expr(fn, args[kk], 0, set()) if isinstance(t, tuple)}
                else:
                    out |= {("in", t[1], "part") for t in S.expr(fn, c, 0, set()) if isinstance(t, tuple)}
            return out
        return {t for t in S.expr(fn, a, 0, set()) if isinstance(t, tuple)}
    changed = True
    rounds = 0
    while changed and rounds < 8:
        changed = False
        rounds += 1
        for fn in funcs:
            for i, nd in enumerate(fn.nodes):
                if nd["k"] != "call" or not nd.get("o"):
                    continue
                callee = prog.func(nd["o"], fn.unit)
                if callee is None:
                    continue
                mk = M.get((callee.file, callee.name))
                if not mk:
                    continue
                args = nd["c"][1:]
                for (k, depth), wit in list(mk.items()):
                    if k >= len(args):
                        continue
                    for t in arg_tokens(fn, args[k], depth):
                        key = (t[1], t[2] if depth == "self" else "part")
                        cur = M.setdefault((fn.file, fn.name), {})
                        if key not in cur:
                            cur[key] = "passes it to %s at %s, which %s" % (callee.name, fn.where(i), wit)
                            changed = True
    # 3. verdict at the entry points
    entries = {}
    for (f, sname, origin) in (prims or []):
        entries[(f.file, f.name)] = sname
    for fn in funcs:
        if fn.name in ENTRY_EXTRA:
            entries.setdefault((fn.file, fn.name), fn.name)
    stat.sites = nsites
    for fn in funcs:
        key = (fn.file, fn.name)
        if key not in entries:
            continue
        user = [k for k, v in enumerate(fn.params) if fn.var_type(v) == tables.SEXP_T and fn.vars[v]["n"] not in ("ctx", "self")]
        for k in user:
            stat.obligations += 1
            hits = [(d, w) for (kk, d), w in M.get(key, {}).items() if kk == k]
            if not hits:
                stat.discharged += 1
                continue
            d, w = hits[0]
            pname = fn.vars[fn.params[k]]["n"]
            res.add(Finding("C04", "C04.c.operand-modified-in-place", fn.name, "operand %s (%s)" % (pname, d), fn.where(),
                            "%s (%s) may modify %s its operand `%s` in place: it %s - the caller's number changes under its "
                            "feet (numbers are immutable values)" % (fn.name, entries[key], "an object stored in" if d == "part" else "",
                                                                   pname, w), unit=fn.unit.display))
    stat.helpers = {k[1]: sorted(v) for k, v in M.items()}
    return stat


def explore(prog, S, fn, site, obj):
    """None if on every feasible path the object stored to is fresh (or an immediate), else a description"""
    from cfg import elem_positions, enclosing_elem
    pos = elem_positions(fn)
    at = enclosing_elem(fn, site, pos)
    if at is None:
        return None
    E = fn.txt(obj)
    on = fn.nodes[obj]
    # root local / parameter and field path of E
    root = obj
    fields = []
    while fn.nodes[root]["k"] == "mem":
        o2, p = fn.mempath(root)
        fields = p + fields
        root = fn.strip(o2)
    rn = fn.nodes[root]
    if rn["k"] == "un" and rn["o"] == "*":
        inner = fn.strip(rn["c"][0])
        if fn.nodes[inner]["k"] == "ref" and fn.nodes[inner].get("d") in fn.params:
            return None          # *out parameter: the callee's own result cell
    if rn["k"] != "ref" or "d" not in rn:
        return "reached through %s, which the rule cannot follow" % fn.txt(root)[:40]
    rootv = rn["d"]
    roottxt = fn.txt(root)
    # tracked lvalues: the root variable and every prefix path of E
    prefixes = [roottxt]
    cur = obj
    chain = []
    while fn.nodes[cur]["k"] == "mem":
        chain.append(fn.txt(cur))
        o2, _p = fn.mempath(cur)
        cur = fn.strip(o2)
    tracked = [roottxt] + list(reversed(chain))

    def origin_of(n, st):
        return frozenset(S.expr(fn, n, 0, set(), st))

    def _constructed_of(fn_, call_node):
        name = call_node.get("o")
        g = prog.func(name, fn_.unit) if name else None
        if g is None or not g.blocks or name in FRESH_CALLS or name in CONSTRUCTORS:
            return None
        return S.constructed(g)

    assigned_params = {}
    for nd in fn.nodes:
        if nd["k"] == "bin" and nd["o"] == "=":
            l = fn.strip(nd["c"][0])
            if fn.nodes[l]["k"] == "ref" and fn.nodes[l].get("d") in fn.params:
                assigned_params[fn.nodes[l]["d"]] = True

    def assign(st, lhs, rhs):
        """effect of lhs = rhs on the tracked lvalues"""
        lt = fn.txt(fn.strip(lhs))
        st = dict(st)
        if lt in tracked:
            r = fn.strip(rhs)
            rn2 = fn.nodes[r]
            st[lt] = origin_of(r, st)
            # the tracked paths below lt now describe the new object
            for t in tracked:
                if t != lt and t.startswith(lt + "->"):
                    sub = t[len(lt):]
                    fld = sub.split(".")[-1]
                    if rn2["k"] == "call" and rn2.get("o") in CONSTRUCTORS and sub.count("->") == 1 \
                            and fld in CONSTRUCTORS[rn2["o"]]:
                        k = CONSTRUCTORS[rn2["o"]][fld]
                        args = rn2["c"][1:]
                        st[t] = origin_of(args[k], st) if k < len(args) else frozenset({"unknown"})
                    elif rn2["k"] == "call" and sub.count("->") == 1 and _constructed_of(fn, rn2) is not None \
                            and fld in _constructed_of(fn, rn2):
                        # a helper that returns an object it constructed: the field holds what the helper left there
                        args = rn2["c"][1:]
                        toks = set()
                        for o in _constructed_of(fn, rn2)[fld]:
                            if isinstance(o, tuple):
                                # callee parameter index == argument index (ctx is parameter / argument 0)
                                if 0 <= o[1] < len(args):
                                    toks |= {(("in", x[1], "part") if isinstance(x, tuple) else x)
                                             for x in origin_of(args[o[1]], st)}
                            else:
                                toks.add(o)
                        st[t] = frozenset(toks or {"fresh"})
                    else:
                        st[t] = st[lt]
        return st

    init = {}
    if rootv in fn.params:
        k0 = fn.params.index(rootv)
        for t in tracked:
            init[t] = frozenset({("in", k0, "self" if t == roottxt else "part")})
    # forward search over (block, state, assumptions)
    start = (fn.entry, tuple(sorted((k, tuple(sorted(v, key=str))) for k, v in init.items())), frozenset())
    seen = set()
    work = [start]
    bad = None
    steps = 0
    while work and steps < 200000:
        steps += 1
        b, stt, assume = work.pop()
        key = (b, stt, assume)
        if key in seen:
            continue
        seen.add(key)
        st = {k: frozenset(v) for k, v in stt}
        blk = fn.blocks[b]
        stop = False
        for idx, e in enumerate(blk.elems):
            if (b, idx) == at:
                o = st.get(E)
                if o is None:
                    o = origin_of(obj, st)
                sh = shared(o)
                if sh:
                    bad = set(bad or ()) | set(sh)
                stop = True
                break
            nd = fn.nodes[e]
            if nd["k"] == "bin" and nd["o"] == "=":
                lt = fn.txt(fn.strip(nd["c"][0]))
                if lt in tracked:
                    st = assign(st, nd["c"][0], nd["c"][1])
                    assume = frozenset(a for a in assume if lt not in a[0])
            elif nd["k"] == "decl" and nd.get("c") and nd.get("d") == rootv:
                st = assign(st, root, nd["c"][0])
            elif nd["k"] == "call" and nd.get("o"):
                callee = prog.func(nd["o"], fn.unit)
                if callee is not None and callee.blocks and callee is not fn:
                    args = nd["c"][1:]
                    for (k, suffix) in field_effects(prog, S, callee):
                        if k < len(args):
                            t = fn.txt(fn.strip(args[k])) + suffix
                            if t in tracked:
                                st = dict(st)
                                st[t] = frozenset({"fresh"})
                                for t2 in tracked:
                                    if t2.startswith(t + "->"):
                                        st[t2] = frozenset({"fresh"})
        if stop:
            continue
        nst = tuple(sorted((k, tuple(sorted(v, key=str))) for k, v in st.items()))
        succs = [s for s in blk.succs]
        if blk.cond is not None and len(succs) == 2:
            for j, s in enumerate(succs):
                if s is None or s < 0:
                    continue
                a2 = set(assume)
                ok = True
                cond = fn.strip(blk.cond)
                atoms = implied(fn, cond, j == 0)
                if blk.term not in ("&&", "||"):
                    c = cond
                    while fn.nodes[c]["k"] == "bin" and fn.nodes[c]["o"] in ("&&", "||"):
                        c = fn.strip(fn.nodes[c]["c"][1])
                        atoms = atoms + implied(fn, c, j == 0)
                for (a, pol) in atoms:
                    an = fn.nodes[a]
                    if an["k"] != "bin" or an["o"] not in ("==", "!="):
                        continue
                    t = fn.txt(a)
                    if not any(tr in t for tr in tracked):
                        continue
                    if (t, not pol) in a2:
                        ok = False
                        break
                    a2.add((t, pol))
                if ok:
                    work.append((s, nst, frozenset(a2)))
        else:
            for s in succs:
                if s is not None and s >= 0:
                    work.append((s, nst, assume))
    return bad


# ------------------------------------------------------------------ boundary constants in double comparisons
def _int_constant(fn, n):
    """the integer constant an operand stands for: a constant expression, or a local that is defined exactly
    once, by its initializer, from one (`const double fix_max = SEXP_MAX_FIXNUM;` - the rounding then
    happens at the initialization, the comparison is the same)"""
    cv = fn.const_val(n)
    if cv is not None:
        return cv
    n = fn.strip(n)
    nd = fn.nodes[n]
    if nd["k"] != "ref" or "d" not in nd or nd["d"] in fn.params:
        return None
    vid = nd["d"]
    init = None
    for i, x in enumerate(fn.nodes):
        if x["k"] == "decl" and x.get("d") == vid:
            if init is not None or not x.get("c"):
                return None
            init = x["c"][0]
        elif x["k"] == "bin" and x["o"].endswith("=") and x["o"] not in ("==", "!=", "<=", ">="):
            l = fn.strip(x["c"][0])
            if fn.nodes[l]["k"] == "ref" and fn.nodes[l].get("d") == vid:
                return None
        elif x["k"] == "un" and x["o"] in ("pre++", "pre--", "post++", "post--", "&"):
            l = fn.strip(x["c"][0])
            if fn.nodes[l]["k"] == "ref" and fn.nodes[l].get("d") == vid:
                return None
    return fn.const_val(init) if init is not None else None


def run_bounds(prog, res, prop, rule, units, floor=1):
    """A double compared with an integer constant that binary64 cannot represent is compared with the rounded
    constant.  `x > C` with C rounding up to C' misses x == C' (which is > C); `x >= C` is still right for
    integer-valued x.  (SEXP_MAX_FIXNUM = 2^62-1 rounds to 2^62.)"""
    stat = res.stat(rule, "doubles compared with integer constants outside the exactly representable range use the "
                    "operator that stays correct under rounding of the constant", floor=floor)
    for fn in prog.all_funcs():
        if fn.unit.name not in units or not fn.blocks:
            continue
        for i, nd in enumerate(fn.nodes):
            if nd["k"] != "bin" or nd["o"] not in ("<", "<=", ">", ">="):
                continue
            l, r = nd["c"]
            for (a, b, flip) in ((l, r, False), (r, l, True)):
                ta = fn.type(fn.strip(a)) or ""
                cv = _int_constant(fn, b)
                if ta not in ("double", "float", "long double") or not isinstance(cv, int) or abs(cv) <= 2 ** 53:
                    continue
                rounded = int(float(cv))
                if rounded == cv:
                    continue
                stat.sites += 1
                stat.obligations += 1
                o = nd["o"]
                if flip:
                    o = {"<": ">", "<=": ">=", ">": "<", ">=": "<="}[o]
                # o relates the double (left) to the constant (right)
                wrong = (o in (">", "<=")) if rounded > cv else (o in ("<", ">="))
                if not wrong:
                    stat.discharged += 1
                    stat.sample({"site": fn.where(i), "function": fn.name, "compare": "%s %s %d" % (fn.txt(a)[:30], o, cv)})
                    continue
                res.add(Finding(prop, rule + ".rounded-boundary", fn.name, "%s %s %d" % (fn.txt(fn.strip(a))[:40], o, cv), fn.where(i),
                                "%s compares the double %s with %d, which binary64 rounds to %d: `%s` then %s the value %d "
                                "itself, so a double equal to %d takes the wrong side (it is boxed as a fixnum that does not hold it)"
                                % (fn.name, fn.txt(fn.strip(a))[:40], cv, rounded, o,
                                   "lets through" if o in (">", "<") else "rejects", rounded, rounded),
                                unit=fn.unit.display))
    return stat


# ------------------------------------------------------------------ integers that went through a double
def _double_leaves(fn, n, out, depth=0):
    n = fn.strip(n)
    nd = fn.nodes[n]
    if (fn.type(n) or "") in ("double", "float", "long double"):
        out.append(n)
        return
    if nd["k"] == "call" or depth > 12:
        return
    for c in nd.get("c", []):
        _double_leaves(fn, c, out, depth + 1)


def run_fromdouble(prog, res, prop, rule, units, floor=0):
    """A decoder that accumulates an integer's digits in a double and boxes the result as a fixnum returns a
    different integer for every value above 2^53 (the fixnum range is 2^62).  Such a boxing is accepted only
    where a comparison that holds on every path bounds the double's magnitude by a constant <= 2^53."""
    from rules import c01i
    stat = res.stat(rule, "no fixnum is boxed from a double whose magnitude may exceed 2^53", floor=floor)
    for fn in prog.all_funcs():
        if fn.unit.name not in units or not fn.blocks:
            continue
        cx = None
        done = set()
        for i, nd in enumerate(fn.nodes):
            x = c01i.box_operand(fn, i)
            if x is None or fn.strip(i) in done:
                continue
            done.add(fn.strip(i))
            dl = []
            _double_leaves(fn, x, dl)
            if not dl:
                continue
            cx = cx or c01i.Ctx(fn)
            pos = c01i.enclosing_elem(fn, i, cx.pos)
            if pos is None:
                continue
            stat.sites += 1
            stat.obligations += 1
            decls = {fn.nodes[m]["d"] for d in dl for m in fn.subtree(d) if fn.nodes[m]["k"] == "ref" and "d" in fn.nodes[m]}
            upper = lower = False
            for (a, pol, _g) in c01i.facts_at(cx, pos):
                an = fn.nodes[a]
                if an["k"] != "bin" or an["o"] not in ("<", "<=", ">", ">="):
                    continue
                for (e, c, flip) in ((an["c"][0], an["c"][1], False), (an["c"][1], an["c"][0], True)):
                    cv = fn.float_val(c)
                    if not isinstance(cv, (int, float)) or (fn.type(fn.strip(e)) or "") not in ("double", "float", "long double"):
                        continue
                    if abs(cv) > 2 ** 53:
                        continue
                    refs = {fn.nodes[m]["d"] for m in fn.subtree(e) if fn.nodes[m]["k"] == "ref" and "d" in fn.nodes[m]}
                    if not (refs & decls):
                        continue
                    o = an["o"]
                    if flip:
                        o = {"<": ">", "<=": ">=", ">": "<", ">=": "<="}[o]
                    if not pol:
                        o = {"<": ">=", "<=": ">", ">": "<=", ">=": "<"}[o]
                    isabs = "fabs" in fn.txt(e)
                    if o in ("<", "<="):
                        upper = True
                        lower = lower or isabs
                    else:
                        lower = True
            if upper and lower:
                stat.discharged += 1
                continue
            res.add(Finding(prop, rule + ".lossy-integer", fn.name, fn.txt(x)[:40], fn.where(i),
                            "%s boxes a fixnum from the double %s with no bound <= 2^53 on its magnitude holding on every path: "
                            "an integer above 9007199254740992 that was accumulated in that double comes back as a different integer"
                            % (fn.name, fn.txt(x)[:40]), unit=fn.unit.display))
    return stat


def bounds_witnesses(prog, res):
    """the two numeric-boundary rules expect zero sites in json.c today: positive and negative examples
    are analysed with the same code on every run so the rules cannot pass vacuously"""
    import os
    import extract
    import report
    path = os.path.join(extract.VERIF, "selftest", "witness", "bounds.c")
    wp = extract.load_program(prog.config, only={"<none>"}, extra_sources=[(path, [])])
    tmp = report.Result("C04", "quick")
    run_bounds(wp, tmp, "C04", "W.d", {"bounds.c"}, floor=0)
    run_fromdouble(wp, tmp, "C04", "W.e", {"bounds.c"}, floor=0)
    flagged = {f.function for f in tmp.findings + tmp.advisories}
    n = 0
    for name in sorted(wp.units[0].functions):
        if name.startswith("witness_bad_"):
            n += 1
            res.witness.append((name, name in flagged))
        elif name.startswith("witness_ok_"):
            n += 1
            res.witness.append((name, name not in flagged))
    if n < 10:
        res.broken.append("numeric-boundary witness file yielded only %d functions" % n)


# ------------------------------------------------------------------ unboxing under a test that admits non-fixnums
def run_unbox_belief(prog, res, prop, rule, units, floor=0):
    """`sexp_unbox_fixnum(x)` reads the bits of x as an integer.  Where the tests that hold on every path to that
    point say that x is a number of one of several representations, not all of them the fixnum - the code has
    just checked `sexp_exact_integerp(x)`, say - a bignum reaches the unboxing and its address is taken for the
    value.  (The programmer's own test is the evidence that the other representations can occur.)"""
    from kinds import KindModel, KindAnalysis
    from rules import c01i
    stat = res.stat(rule, "no fixnum unboxing of a value that the dominating numeric tests allow to be a bignum, flonum, "
                    "ratio or complex", floor=floor)
    model = KindModel(prog)
    fix = {k for k in model.U if str(k) == "i:fixnum"}
    num = set(fix)
    for m in ("bignum", "flonum", "ratio", "complex"):
        num |= set(model.member_tags.get(m, set()))
    for fn in prog.all_funcs():
        if fn.unit.name not in units or not fn.blocks:
            continue
        sites = []
        for i, nd in enumerate(fn.nodes):
            if nd["k"] == "bin":
                x = c01i.unbox_operand(fn, i)
                if x is not None:
                    x = fn.strip(x)
                    if fn.nodes[x]["k"] == "ref" and "d" in fn.nodes[x]:
                        sites.append((i, x))
        if not sites:
            continue
        vids = {fn.nodes[x]["d"] for (_i, x) in sites}
        ka = KindAnalysis(model, fn, {v: model.U for v in vids if v in fn.params})
        ka.sticky = set(vids)
        for (i, x) in sites:
            ka.probes[i] = x
        ka.run()
        seen = set()
        for (i, x) in sites:
            ks = ka.probe_results.get(i)
            if ks is None:
                continue
            stat.sites += 1
            if ks == model.U or not (ks <= num):
                continue            # no numeric belief established on this path
            stat.obligations += 1
            if not (ks & fix) or not (ks - fix):
                stat.discharged += 1
                continue
            key = (fn.name, fn.txt(x))
            if key in seen:
                continue
            seen.add(key)
            res.add(Finding(prop, rule + ".unboxed-non-fixnum", fn.name, "unbox of %s" % fn.txt(x), fn.where(i),
                            "%s unboxes `%s` as a fixnum where the tests that hold on every path only establish that it is one of "
                            "%s: for the other representations the object's address is used as the number"
                            % (fn.name, fn.txt(x), model.describe(ks)[:80]), unit=fn.unit.display))
    return stat


# ------------------------------------------------------------------ radix threading
def run_radix(prog, res, prop, rule, units, floor=2):
    """the number reader is parameterised by the radix.  A parameter is a radix when the function accumulates
    `acc * P + digit` and rejects `digit >= P`, or hands P on to such a parameter of another function.  A function
    that received a radix and calls a reader that takes one passes its own radix on: a literal there reads part of
    the same number (the denominator of a ratio, say) in another base."""
    stat = res.stat(rule, "functions that receive the radix pass it to the number readers they call", floor=floor)
    funcs = [f for f in prog.all_funcs() if f.blocks and f.unit.name in units]
    radix = {}      # function name -> parameter index
    for fn in funcs:
        for k, p in enumerate(fn.params):
            if (fn.var_type(p) or "") not in ("int", "long", "unsigned int", "unsigned long"):
                continue
            mul = cmp = False
            for nd in fn.nodes:
                if nd["k"] == "bin" and nd["o"] == "*" and any(fn.nodes[fn.strip(c)]["k"] == "ref" and fn.nodes[fn.strip(c)].get("d") == p
                                                                for c in nd["c"]):
                    mul = True
                if nd["k"] == "bin" and nd["o"] in (">=", "<"):
                    r = fn.strip(nd["c"][1])
                    if fn.nodes[r]["k"] == "ref" and fn.nodes[r].get("d") == p:
                        cmp = True
            if mul and cmp:
                radix[fn.name] = k
    if not radix:
        from extract import AnalysisBroken
        raise AnalysisBroken("anchor vanished: no function accumulates digits in a radix parameter")
    changed = True
    while changed:
        changed = False
        for fn in funcs:
            if fn.name in radix:
                continue
            for nd in fn.nodes:
                if nd["k"] == "call" and nd.get("o") in radix:
                    k = radix[nd["o"]]
                    args = nd["c"][1:]
                    if k < len(args):
                        a = fn.strip(args[k])
                        if fn.nodes[a]["k"] == "ref" and fn.nodes[a].get("d") in fn.params:
                            radix[fn.name] = fn.params.index(fn.nodes[a]["d"])
                            changed = True
                            break
    for fn in funcs:
        if fn.name not in radix:
            continue
        p = fn.params[radix[fn.name]]
        for i, nd in enumerate(fn.nodes):
            if nd["k"] != "call" or nd.get("o") not in radix:
                continue
            k = radix[nd["o"]]
            args = nd["c"][1:]
            if k >= len(args):
                continue
            stat.sites += 1
            stat.obligations += 1
            if p in fn.refs_in(args[k]):
                stat.discharged += 1
                stat.sample({"site": fn.where(i), "function": fn.name, "callee": nd["o"]})
            else:
                res.add(Finding(prop, rule + ".radix-not-passed", fn.name, "%s(.., %s, ..)" % (nd["o"], fn.txt(args[k])[:12]), fn.where(i),
                                "%s reads a number in the radix `%s` it was given, but calls %s with %s for the radix: that part of "
                                "the literal is read in another base than the rest" % (fn.name, fn.vars[p]["n"], nd["o"], fn.txt(args[k])[:12]),
                                unit=fn.unit.display))
    return stat
