from rules import c07, common


def run(res, tier, replay=None):
    c07.run(None, res)
    res.assumptions = ["the lint covers er-macro-transformer definitions of the form (define-syntax NAME (er-macro-transformer (lambda (form rename compare) ...))) in lib/init-7.scm and every file included by a library in the import closure of the R7RS-small libraries",
                       "inserted identifier = a symbol in a quasiquote template outside unquote, or a quoted symbol passed to list/cons/append/vector; identifiers built in other ways (string->symbol, helper procedures) are not seen",
                       "trusted base: the s-expression reader in engine/py/slint.py"]
    if tier == "thorough":
        common.thorough_mutations(res, "C07", {"C07": lambda p, r: c07.run(p, r, root=p.root)})
    res.explanation = (
        "C07, one clause: every identifier that a shipped explicit-renaming macro of the R7RS-small closure inserts into its "
        "expansion goes through the macro's renamer. Decided by walking the transformer bodies (no evaluation). Not decided: "
        "syntax-rules expansion, identifier=?, environment lookup through syntactic closures.")
