"""helpers shared by the per-property check modules"""
import extract
import mutate
import report


def baseline_keys(res, default_only=False):
    fs = list(res.findings) + list(res.advisories)
    if default_only:
        # what the default configuration reports: findings that exist only under another -D setting are not
        # part of the baseline a mutation witness is compared with
        fs = [f for f in fs if getattr(f, "config", None) in (None, "default")]
    return {f.key() for f in fs}


def thorough_mutations(res, prop, runners):
    mutate.run_mutations(res, prop, runners, baseline_keys(res, default_only=True))


ASSUMPTIONS = [
    "configuration = the one(s) parsed (compile_commands.json of /repo/_build; thorough tier adds the listed -D variants)",
    "calls through function pointers may reach any function whose address flows to a field/parameter of that name; unresolved ones reach every address-taken function",
    "no setjmp/longjmp; no writes through type-punned aliases other than the sexp.h accessor macros",
    "generated FFI units are re-generated from the working tree's .stub files with the repository's own tools/chibi-ffi",
    "trusted base: clang 14 parser / CFG builder / constant evaluator / record layout, cfacts.cc, the python rule library",
]


CORE_UNITS = {"gc.c", "sexp.c", "bignum.c", "gc_heap.c", "opcodes.c", "vm.c", "eval.c", "simplify.c"}
MATRIX = ["nosimplify", "custom_ll", "nothreads", "noextfcall", "refcache"]


def config_matrix(res, runner, violation, configs=MATRIX, units=CORE_UNITS):
    """thorough tier: re-parse the core units under the configurations that toggle guarded code and
    re-run `runner(prog, result)`; a finding that does not exist in the default configuration is a
    violation only when the property quantifies over build configurations, else advisory"""
    base = baseline_keys(res)
    for cfg in configs:
        try:
            prog = extract.load_program(cfg, only=units)
        except extract.AnalysisBroken as e:
            res.notes.append("configuration %s could not be parsed: %s" % (cfg, str(e)[:200]))
            continue
        r2 = report.Result(res.prop, "thorough")
        try:
            runner(prog, r2)
        except extract.AnalysisBroken as e:
            res.notes.append("configuration %s: %s" % (cfg, str(e)[:160]))
            continue
        new = [f for f in r2.findings if f.key() not in base]
        for f in new:
            f.config = cfg
            f.message = "[only in configuration %s] %s" % (cfg, f.message)
            f.advisory = not violation
            res.add(f)
            base.add(f.key())
        res.notes.append("configuration %s: %d units, %d obligations, %d findings not present in the default configuration"
                         % (cfg, len(prog.units), sum(s.obligations for s in r2.stats), len(new)))
        if cfg not in res.configs:
            res.configs.append(cfg)
