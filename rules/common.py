"""helpers shared by the per-property check modules"""
import extract
import mutate
import report


def baseline_keys(res):
    return {f.key() for f in res.findings} | {f.key() for f in res.advisories}


def thorough_mutations(res, prop, runners):
    mutate.run_mutations(res, prop, runners, baseline_keys(res))


ASSUMPTIONS = [
    "configuration = the one(s) parsed (compile_commands.json of /repo/_build; thorough tier adds the listed -D variants)",
    "calls through function pointers may reach any function whose address flows to a field/parameter of that name; unresolved ones reach every address-taken function",
    "no setjmp/longjmp; no writes through type-punned aliases other than the sexp.h accessor macros",
    "generated FFI units are re-generated from the working tree's .stub files with the repository's own tools/chibi-ffi",
    "trusted base: clang 14 parser / CFG builder / constant evaluator / record layout, cfacts.cc, the python rule library",
]
