"""C10.e - an allocation result is tested before it is written through.

sexp_alloc returns the context's shared out-of-memory exception object when the heap cannot be grown, and so does
every function that returns the result of such a call unfiltered.  A store through the result that is not preceded,
on every path from the call, by a test that excludes the exception object re-tags / re-initialises that shared object:
the heap loses the tiling invariant (the sweeper sizes the chunk from the wrong type row) and neighbouring objects are
overwritten."""
import tables
from cfg import implied, local_defs, elem_positions, enclosing_elem
from report import Finding
from extract import AnalysisBroken
from rules.c01t import _decided_by


# Scope: results of the allocator layer (sexp_alloc and what returns its result unfiltered) are followed in every unit;
# in the VM unit the results of every constructor (a function that returns such a result) are followed as well.
VM_UNITS = ("vm.c",)


def _txt(fn, n):
    try:
        return fn.txt(n)
    except (KeyError, IndexError):
        return ""


def oom_returners(prog):
    """functions that may return the OOM exception object in place of a fresh object: a return value (or a local
    that is returned) assigned from the global slot SEXP_G_OOM_ERROR; closed under `return f(...)` / `v = f(...);
    ... return v` when no exception test of v lies between (one level is what the tree has: sexp_alloc_tagged_aux)"""
    base = set()
    for fn in prog.all_funcs():
        if not fn.blocks:
            continue
        for i, nd in enumerate(fn.nodes):
            if nd["k"] == "bin" and nd["o"] == "=" and "SEXP_G_OOM_ERROR" in _txt(fn, nd["c"][1]) \
                    and fn.nodes[fn.strip(nd["c"][0])]["k"] == "ref":
                v = fn.nodes[fn.strip(nd["c"][0])].get("d")
                if any(x["k"] == "ret" and x.get("c") and fn.nodes[fn.strip(x["c"][0])].get("d") == v for x in fn.nodes):
                    base.add(fn.name)
            if nd["k"] == "ret" and nd.get("c") and "SEXP_G_OOM_ERROR" in _txt(fn, nd["c"][0]) and fn.name.startswith("sexp_alloc"):
                base.add(fn.name)
    return base


def _exc_test(fn, atom, pol, vtxt, exc_tag, prog=None, depth=0):
    """does `atom == pol` exclude that v is the exception object?"""
    atom = fn.strip(atom)
    nd = fn.nodes[atom]
    if depth > 3:
        return False
    # a flag local: int ok = !sexp_exceptionp(v); ... if (ok)
    if nd["k"] == "ref" and "d" in nd and nd["d"] not in fn.params and fn.txt(atom) != vtxt:
        defs = local_defs(fn, nd["d"])
        if len(defs) == 1 and defs[0][1] is not None:
            return _exc_test(fn, defs[0][1], pol, vtxt, exc_tag, prog, depth + 1)
        return False
    # c ? 1 : 0  /  c ? 0 : 1
    if nd["k"] == "cond" and len(nd.get("c", ())) == 3:
        a, b = fn.const_val(nd["c"][1]), fn.const_val(nd["c"][2])
        if a is not None and b is not None and bool(a) != bool(b):
            return _exc_test(fn, nd["c"][0], pol if a else not pol, vtxt, exc_tag, prog, depth + 1)
        return False
    # a one-return predicate helper that is handed v
    if nd["k"] == "call" and prog is not None:
        g = prog.func(nd.get("o") or "")
        if g is not None and g.blocks:
            rets = [x for x in g.nodes if x["k"] == "ret" and x.get("c")]
            pv = None
            for ai, a in enumerate(nd["c"][1:]):
                if fn.txt(fn.strip(a)) == vtxt and ai < len(g.params):
                    pv = g.vars[g.params[ai]]["n"]
            if len(rets) == 1 and pv is not None:
                return _exc_test(g, rets[0]["c"][0], pol, pv, exc_tag, prog, depth + 1)
        return False
    if nd["k"] == "bin" and nd["o"] in ("==", "!=") and any(fn.const_val(c) == 0 for c in nd["c"]):
        sub = nd["c"][1] if fn.const_val(nd["c"][0]) == 0 else nd["c"][0]
        sk = fn.nodes[fn.strip(sub)]
        if sk["k"] in ("call", "cond", "un") or (sk["k"] == "bin" and sk["o"] in ("&&", "||", "==", "!=")) or \
                (sk["k"] == "ref" and fn.txt(fn.strip(sub)) != vtxt):
            if not _is_pointer_test(fn, atom, vtxt):
                return _exc_test(fn, sub, pol if nd["o"] == "!=" else not pol, vtxt, exc_tag, prog, depth + 1)
    if nd["k"] == "un" and nd["o"] == "!":
        return _exc_test(fn, nd["c"][0], not pol, vtxt, exc_tag, prog, depth + 1)
    if nd["k"] == "bin" and nd["o"] in ("&&", "||"):
        parts = [_exc_test(fn, c, pol, vtxt, exc_tag, prog, depth + 1) for c in nd["c"]]
        if (nd["o"] == "&&") == pol:
            return any(parts)
        # !(pointerp(v) && v->tag == EXC): the exception object is a pointer, so the second operand decides
        if nd["o"] == "&&" and not pol:
            l, r = nd["c"]
            if _is_pointer_test(fn, l, vtxt) and _exc_test(fn, r, False, vtxt, exc_tag, prog, depth + 1):
                return True
        return all(parts)
    if nd["k"] == "bin" and nd["o"] in ("==", "!="):
        for a, b in ((0, 1), (1, 0)):
            # identity with the shared object itself: v == sexp_global(ctx, SEXP_G_OOM_ERROR)
            if fn.txt(fn.strip(nd["c"][a])) == vtxt and "SEXP_G_OOM_ERROR" in _txt(fn, nd["c"][b]):
                return (nd["o"] == "==") != pol
        for a, b in ((0, 1), (1, 0)):
            ta = fn.txt(fn.strip(nd["c"][a]))
            if ta == vtxt + "->tag":
                v = fn.const_val(nd["c"][b])
                if v is None:
                    return False
                eq = (nd["o"] == "==") == pol
                return (eq and v != exc_tag) or (not eq and v == exc_tag)
        if _is_pointer_test(fn, atom, vtxt):
            return not pol            # not a pointer at all: nothing is stored through it either
    return False


def _implies_exc(fn, atom, pol, vtxt, exc_tag, depth=0):
    """`atom == pol` establishes that v IS an exception object (stores that follow are deliberate updates of it)"""
    atom = fn.strip(atom)
    nd = fn.nodes[atom]
    if depth > 4:
        return False
    if nd["k"] == "un" and nd["o"] == "!":
        return _implies_exc(fn, nd["c"][0], not pol, vtxt, exc_tag, depth + 1)
    if nd["k"] == "bin" and nd["o"] in ("&&", "||"):
        parts = [_implies_exc(fn, c, pol, vtxt, exc_tag, depth + 1) for c in nd["c"]]
        return any(parts) if (nd["o"] == "&&") == pol else all(parts)
    if nd["k"] == "bin" and nd["o"] in ("==", "!="):
        for a, b in ((0, 1), (1, 0)):
            if fn.txt(fn.strip(nd["c"][a])) == vtxt + "->tag" and fn.const_val(nd["c"][b]) == exc_tag:
                return (nd["o"] == "==") == pol
    return False


def _is_pointer_test(fn, n, vtxt):
    t = fn.txt(fn.strip(n)).replace(" ", "")
    return t in ("((%s&3)==0)" % vtxt, "(%s&3)==0" % vtxt)


def run(prog, res, floor=1):
    stat = res.stat("C10.e", "stores through the result of an allocator that can return the out-of-memory exception object "
                    "are preceded by a test that excludes it", floor=floor)
    exc_tag = dict((n, v) for n, v in tables.enum_values(prog, const_prefix="SEXP_EXCEPTION")).get("SEXP_EXCEPTION")
    base = oom_returners(prog)
    if "sexp_alloc" not in base or exc_tag is None:
        raise AnalysisBroken("anchor vanished: sexp_alloc no longer returns the SEXP_G_OOM_ERROR object (found: %s)" % sorted(base))
    allocs = set(base)
    # passthrough: `v = A(...)` ... `return v`
    changed = True
    while changed:
        changed = False
        for fn in prog.all_funcs():
            if not fn.blocks or fn.name in allocs:
                continue
            for vid in range(len(fn.vars)):
                if vid in fn.params:
                    continue
                for (at, rhs) in local_defs(fn, vid):
                    if rhs is None:
                        continue
                    c = fn.nodes[fn.strip(rhs)]
                    if c["k"] == "call" and c.get("o") in allocs and fn.ret_type and "sexp" in fn.ret_type:
                        if any(x["k"] == "ret" and x.get("c") and fn.nodes[fn.strip(x["c"][0])].get("d") == vid for x in fn.nodes) \
                                and fn.name.startswith("sexp_alloc"):
                            allocs.add(fn.name)
                            changed = True
    makers = set(allocs)
    changed = True
    while changed:
        changed = False
        for fn in prog.all_funcs():
            if not fn.blocks or fn.name in makers or "sexp" not in (fn.ret_type or ""):
                continue
            for vid in range(len(fn.vars)):
                if vid in fn.params:
                    continue
                if any(rhs is not None and fn.nodes[fn.strip(rhs)]["k"] == "call" and fn.nodes[fn.strip(rhs)].get("o") in makers
                       for (_, rhs) in local_defs(fn, vid)) \
                        and any(x["k"] == "ret" and x.get("c") and fn.nodes[fn.strip(x["c"][0])].get("d") == vid for x in fn.nodes):
                    makers.add(fn.name)
                    changed = True
                    break
    sites = 0
    for fn in prog.all_funcs():
        if not fn.blocks:
            continue
        pos = None
        in_vm = fn.unit.name in VM_UNITS
        sources = makers if in_vm else allocs
        for vid in range(len(fn.vars)):
            if vid in fn.params:
                continue
            vtxt = fn.vars[vid]["n"]
            for (at, rhs) in local_defs(fn, vid):
                if rhs is None:
                    continue
                c = fn.nodes[fn.strip(rhs)]
                if c["k"] != "call" or c.get("o") not in sources:
                    continue
                pos = pos or elem_positions(fn)
                src = enclosing_elem(fn, at, pos) or enclosing_elem(fn, fn.strip(rhs), pos)
                if src is None:
                    continue
                sites += 1
                stat.sites += 1
                stat.obligations += 1
                bad = _untested_store(fn, src, vid, vtxt, exc_tag, prog)
                if bad is None:
                    stat.discharged += 1
                    stat.sample({"site": fn.where(at), "function": fn.name, "allocator": c.get("o"), "result": vtxt})
                else:
                    advisory = False
                    res.add(Finding("C10", "C10.e.store-through-untested-allocation", fn.name, "%s = %s" % (vtxt, c.get("o")),
                                    fn.where(bad), "%s writes through `%s`, the result of %s, on a path with no test that excludes the "
                                    "shared out-of-memory exception object which %s returns when the heap cannot grow: that object is "
                                    "re-tagged / re-initialised as a fresh one and the heap stops being a tiling of well-formed chunks"
                                    % (fn.name, vtxt, c.get("o"), c.get("o")), unit=fn.unit.display, advisory=advisory))
    if not sites:
        raise AnalysisBroken("anchor vanished: no local holds the result of %s" % sorted(allocs))
    return stat


def _untested_store(fn, src, vid, vtxt, exc_tag, prog=None):
    """first store through the variable reachable from src without crossing an excluding test (or a redefinition)"""
    aliases = set()
    for a in range(len(fn.vars)):
        if a == vid or a in fn.params or "*" not in (fn.var_type(a) or ""):
            continue
        defs = local_defs(fn, a)
        if len(defs) == 1 and defs[0][1] is not None and _derived_pointer(fn, defs[0][1], vid):
            aliases.add(a)
    sb, si = src
    seen = set()
    st = [(sb, si + 1)]
    while st:
        bid, start = st.pop()
        if (bid, start > 0) in seen:
            continue
        seen.add((bid, start > 0))
        b = fn.blocks[bid]
        stop = False
        for ei in range(start, len(b.elems)):
            e = b.elems[ei]
            nd = fn.nodes[e]
            if nd["k"] == "bin" and nd["o"].endswith("=") and nd["o"] not in ("==", "!=", "<=", ">="):
                lhs = fn.strip(nd["c"][0])
                ln = fn.nodes[lhs]
                if ln["k"] == "ref" and ln.get("d") == vid:
                    stop = True          # redefined
                    break
                if ln["k"] in ("mem", "idx", "un") and (_based_on(fn, lhs, vid) or any(_based_on(fn, lhs, a, deref_only=True) for a in aliases)):
                    return e
        if stop:
            continue
        for k, s in enumerate(b.succs):
            if s is None or s < 0:
                continue
            if b.cond is not None and len(b.succs) == 2:
                if _exc_test(fn, _decided_by(fn, b), k == 0, vtxt, exc_tag, prog):
                    continue
                if _implies_exc(fn, _decided_by(fn, b), k == 0, vtxt, exc_tag):
                    continue        # known to be an exception from here on: what is stored is stored into it on purpose
            st.append((s, 0))
    return None


def _derived_pointer(fn, n, vid, depth=0):
    """a pointer into the object: (T*)((char*)v + k), &v->f, v->data ..."""
    n = fn.strip(n)
    nd = fn.nodes[n]
    if nd["k"] == "bin" and nd["o"] in ("+", "-") and depth < 4:
        return any((fn.nodes[fn.strip(c)]["k"] == "ref" and fn.nodes[fn.strip(c)].get("d") == vid)
                   or _derived_pointer(fn, c, vid, depth + 1) for c in nd["c"])
    return _based_on(fn, n, vid, through_value=True)


def _based_on(fn, n, vid, through_value=False, deref_only=False):
    """the lvalue n is reached by dereferencing the variable (v->f, v->f.g[i], *v); with deref_only the variable is a
    plain pointer alias (p[i], *p, p->f)"""
    while True:
        n = fn.strip(n)
        nd = fn.nodes[n]
        if nd["k"] == "ref":
            return False
        if nd["k"] == "un" and nd["o"] == "&" and through_value:
            n = nd["c"][0]
            continue
        if nd["k"] in ("idx", "un") and (nd["k"] == "idx" or nd["o"] == "*") and not deref_only:
            # ((T*)((char*)v + k))[i] and *(v + k): pointer arithmetic on the variable itself
            base = fn.strip(nd["c"][0])
            bn = fn.nodes[base]
            if bn["k"] == "bin" and bn["o"] in ("+", "-") and any(
                    fn.nodes[fn.strip(c)]["k"] == "ref" and fn.nodes[fn.strip(c)].get("d") == vid for c in bn["c"]):
                return True
        if deref_only and nd["k"] == "idx":
            base = fn.strip(nd["c"][0])
            if fn.nodes[base]["k"] == "ref" and fn.nodes[base].get("d") == vid:
                return True
        if nd["k"] == "mem":
            base = fn.strip(nd["c"][0])
            if fn.nodes[base]["k"] == "ref" and fn.nodes[base].get("d") == vid and nd.get("ar"):
                return True
            n = base
            continue
        if nd["k"] == "idx":
            n = nd["c"][0]
            continue
        if nd["k"] == "un" and nd["o"] == "*":
            base = fn.strip(nd["c"][0])
            return fn.nodes[base]["k"] == "ref" and fn.nodes[base].get("d") == vid
        return False
