import extract
import callgraph
from rules import c03, c09, common


def rules_for(prog, res):
    cg = callgraph.CallGraph(prog)
    c03.run_a(prog, res, cg, prop="C09", only={"simplify", "usedp"})
    c03.run_a_functions(prog, res, prop="C09", units=("simplify.c",))
    c09.run_b(prog, res)
    c09.run_b2(prog, res)
    c09.run_c(prog, res)
    c09.run_d(prog, res)
    c09.run_e(prog, res)
    c09.run_f(prog, res)


def run(res, tier, replay=None):
    prog = extract.load_program("default")
    res.functions = sum(1 for _ in prog.all_funcs())
    rules_for(prog, res)
    res.assumptions = common.ASSUMPTIONS
    res.explanation = (
        "C09 structural clauses on the simplification pass: (a) simplify and usedp (which decides rest-parameter elision) "
        "visit every sub-AST field of the node types they dispatch on; (b) kind-set dataflow: the literal replacing a folded "
        "application is built only where the fold result cannot be an exception, and the fold uses sexp_apply_no_err_handler, which clears every handler source it saves (thread parameters, global handler cell) before applying; "
        "(c) the push onto the substitution list is dominated by the `not assigned` (memq name sv == #f) edge; (d) taint: neither a value unwrapped from a literal node nor a result of the unchecked fixnum macros reaches "
        "an AST slot or the returned AST - the simplifier folds through the VM only and keeps quoted data wrapped. (e) where simplify / the code generator / analyze ask whether a variable is assigned, the name is paired with the set-variable list of the lambda that binds it (a reference's own location, the lambda whose parameter list the name was taken from). (f) where simplify decides a branch from a constant test, the variable that may hold a literal node is compared with #f itself only where the literal case is excluded (a Lit node wraps the value and is never #f). Not decided: "
        "equality of results across builds as such; the portable 128-bit arithmetic (numerical).")
    if tier == "thorough":
        common.thorough_mutations(res, "C09", {
            "C09.a": lambda p, r: (c03.run_a(p, r, None, prop="C09", only={"simplify", "usedp"}),
                                   c03.run_a_functions(p, r, prop="C09", units=("simplify.c",))),
            "C09.b": lambda p, r: c09.run_b(p, r),
            "C09.b2": lambda p, r: c09.run_b2(p, r, floor=0),
            "C09.c": lambda p, r: c09.run_c(p, r),
            "C09.d": lambda p, r: c09.run_d(p, r, floor=0),
            "C09.e": lambda p, r: c09.run_e(p, r, floor=0),
            "C09.f": lambda p, r: c09.run_f(p, r, floor=0),
        })
