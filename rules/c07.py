"""C07 - hygiene: every identifier a shipped explicit-renaming macro inserts goes through
its renamer (rule family F9, Scheme template lint over the E3 reader)."""
import os

import slint
from slint import Sym, Lst, head, is_sym
from report import Finding
from extract import AnalysisBroken, REPO

CONSTRUCTORS = {"list", "cons", "cons*", "append", "list*", "vector", "append!", "cons-source"}
TRANSFORMERS = {"er-macro-transformer"}

# identifiers that are inserted bare on purpose, per macro: closed templates that contain no
# user-supplied form, so nothing of the user's can be captured and nothing can capture them.
CLOSED_TEMPLATE_OK = {
    ("define-auxiliary-syntax", "expr"): "parameter list of a closed (lambda (expr rename compare) ...) transformer that ignores its input",
    ("define-auxiliary-syntax", "rename"): "same closed transformer",
    ("define-auxiliary-syntax", "compare"): "same closed transformer",
    ("define-auxiliary-syntax", "quote"): "same closed transformer: quotes the keyword's own name inside the generated error call",
}


def r7rs_small_scheme_files(root=None):
    """Scheme source files that define the R7RS-small libraries: lib/init-7.scm plus every file
    included (transitively, through the import closure restricted to includes) by them"""
    root = root or REPO
    libs = slint.load_libraries(root)
    seen_libs = set()
    files = [os.path.join(root, "lib", "init-7.scm")]
    work = list(slint.R7RS_SMALL)
    while work:
        ln = work.pop()
        if ln in seen_libs:
            continue
        seen_libs.add(ln)
        lib = libs.get(ln)
        if lib is None:
            continue
        files.append(lib.path)
        files.extend(f for f in lib.includes if os.path.exists(f))
        for iset in lib.imports:
            base, _back = slint.import_base(iset)
            if base not in seen_libs:
                work.append(base)
    out = []
    for f in files:
        if f not in out and os.path.exists(f):
            out.append(f)
    return out, seen_libs


def find_er_macros(forms, out, fname):
    """(name, renamer param, body forms, line)"""
    for f in forms:
        if not isinstance(f, Lst) or not f:
            continue
        h = head(f)
        if h in ("define-syntax", "let-syntax", "letrec-syntax") or h is None or True:
            pass
        if h == "define-syntax" and len(f) >= 3:
            name = str(f[1])
            t = f[2]
            if isinstance(t, Lst) and head(t) in TRANSFORMERS and len(t) >= 2:
                lam = t[1]
                if isinstance(lam, Lst) and head(lam) == "lambda" and len(lam) >= 3 and isinstance(lam[1], Lst) \
                        and len(lam[1]) >= 2:
                    out.append((name, str(lam[1][1]), lam[2:], f.line, fname))
                    continue
        # recurse: macros defined inside begin / library bodies / cond-expand
        find_er_macros([x for x in f if isinstance(x, Lst)], out, fname)


def lint_body(name, ren, body, report):
    """walk the transformer body; report(symbol, line, how)"""

    def renamed(x):
        return isinstance(x, Lst) and len(x) == 2 and is_sym(x[0], ren)

    def template(t, datum=False):
        # inside a quasiquote template, outside unquote
        if isinstance(t, Sym):
            if not datum:
                report(t, "quasiquote template")
            return
        if not isinstance(t, Lst):
            return
        h = head(t)
        if h in ("unquote", "unquote-splicing") and len(t) == 2:
            expr(t[1])
            return
        if h == "quasiquote":
            return      # nested quasiquote: a template for a later stage
        # (,(rename 'quote) datum ...): datum context
        is_datum = datum
        if t and isinstance(t[0], Lst) and head(t[0]) == "unquote" and len(t[0]) == 2 and renamed(t[0][1]) \
                and isinstance(t[0][1][1], Lst) and head(t[0][1][1]) == "quote" and str(t[0][1][1][1]) in ("quote", "syntax-quote"):
            is_datum = True
        if h == "quote" and not datum:
            # a literal 'x inside the template inserts both `quote` and the datum; the datum is data
            report(t[0], "quasiquote template")
            return
        for x in t:
            template(x, is_datum)
        if t.tail is not None:
            template(t.tail, is_datum)

    def expr(e):
        if not isinstance(e, Lst) or not e:
            return
        h = head(e)
        if h == "quote":
            return
        if h == "quasiquote" and len(e) == 2:
            template(e[1])
            return
        if h == "eval":
            return      # a form built for immediate meta-level evaluation is not part of the expansion
        if h in CONSTRUCTORS:
            args = e[1:]
            if h == "list" and args and renamed(args[0]) and isinstance(args[0][1], Lst) and head(args[0][1]) == "quote" \
                    and str(args[0][1][1]) in ("quote", "syntax-quote"):
                # (list (rename 'quote) 'datum): the quoted argument is data of the expansion
                return
            for a in e[1:]:
                if isinstance(a, Lst) and head(a) == "quote" and len(a) == 2:
                    quoted(a[1], h)
                else:
                    expr(a)
            return
        if is_sym(e[0], ren):
            return
        for x in e:
            expr(x)

    def quoted(d, ctor):
        if isinstance(d, Sym):
            report(d, "argument of %s" % ctor)
        elif isinstance(d, Lst):
            for x in d:
                quoted(x, ctor)

    for b in body:
        expr(b)


IGNORED_SYMS = {"...", "=>", "else", "_", "."}


def run(prog, res, root=None):
    stat = res.stat("C07.rename", "explicit-renaming macros of the R7RS-small libraries: every inserted identifier "
                    "(quasiquote template symbol / quoted symbol passed to a list constructor) is wrapped by the renamer",
                    floor=15)
    files, libs = r7rs_small_scheme_files(root)
    if not any(f.endswith("init-7.scm") for f in files):
        raise AnalysisBroken("anchor vanished: lib/init-7.scm")
    macros = []
    for f in files:
        try:
            forms = slint.read_file(f)
        except slint.ReadError as e:
            raise AnalysisBroken("cannot read %s: %s" % (f, e))
        find_er_macros(forms, macros, f)
    res.notes.append("scheme files scanned: %d, er-macro-transformer definitions: %d" % (len(files), len(macros)))
    base = (root or REPO) + "/"
    for (name, ren, body, line, fname) in macros:
        stat.sites += 1
        stat.obligations += 1
        bad = []

        def report(sym, how, name=name):
            s = str(sym)
            if s in IGNORED_SYMS:
                return
            if (name, s) in CLOSED_TEMPLATE_OK:
                return
            bad.append((s, getattr(sym, "line", line), how))

        lint_body(name, ren, body, report)
        rel = fname[len(base):] if fname.startswith(base) else fname
        if not bad:
            stat.discharged += 1
            stat.sample({"macro": name, "file": "%s:%d" % (rel, line), "renamer": ren, "verdict": "all inserted identifiers renamed"}, limit=5)
        seen = set()
        for (s, ln, how) in bad:
            if s in seen:
                continue
            seen.add(s)
            res.add(Finding("C07", "C07.unrenamed-identifier", name, s, "%s:%d" % (rel, ln),
                            "macro %s inserts the identifier `%s` (%s) without passing it through its renamer `%s`: it is "
                            "resolved in the macro user's scope, so a user binding of that name captures it (or it captures "
                            "the user's)" % (name, s, how, ren), unit=rel))
    return stat
