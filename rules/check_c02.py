import extract
from rules import c02, f3, common


def run(res, tier, replay=None):
    prog = extract.load_program("default")
    res.functions = sum(1 for _ in prog.all_funcs())
    c02.run_r1(prog, res, floor=200)
    f3.r5_type_table(prog, res)
    res.assumptions = common.ASSUMPTIONS
    res.explanation = (
        "C02, structural clauses only. R1: every function that links a sexp_gc_var_t node into ctx->saves has an empty "
        "link stack at every return on every CFG path (path-sensitive for stable correlated predicates), never unlinks an "
        "unlinked node, never links twice. R5: each row of _sexp_type_specs agrees with the ASTRecordLayout of the union "
        "member it describes (traced words are exactly the sexp fields; untraced sexp fields must be weak or listed). "
        "Not decided: schedule independence of results as such, embedder roots, Boehm/conservative configurations.")
    if tier == "thorough":
        common.thorough_mutations(res, "C02", {
            "R1": lambda p, r: c02.run_r1(p, r),
            "R5": lambda p, r: f3.r5_type_table(p, r),
        })
