import extract
from rules import c02, f3


def run(res, tier, replay=None):
    prog = extract.load_program("default")
    res.functions = sum(1 for _ in prog.all_funcs())
    c02.run_r1(prog, res, floor=200)
    f3.r5_type_table(prog, res)
    res.explanation = "C02 structural clauses"
