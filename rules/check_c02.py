import extract
import callgraph
from rules import c02, f3, common


def run(res, tier, replay=None):
    prog = extract.load_program("default")
    res.functions = sum(1 for _ in prog.all_funcs())
    c02.run_r1(prog, res, floor=200)
    f3.r5_type_table(prog, res)
    cg = callgraph.CallGraph(prog)
    c02.run_r3b(prog, res, cg)
    c02.run_r3a(prog, res, cg)
    c02.witnesses_r3(prog, res)
    c02.run_r6(prog, res)
    c02.run_r4(prog, res, cg)
    c02.run_r7(prog, res, cg)
    c02.run_r8(prog, res)
    c02.run_r9(prog, res, cg, floor=8)
    res.assumptions = common.ASSUMPTIONS
    res.explanation = (
        "C02, structural clauses only. R1: every function that links a sexp_gc_var_t node into ctx->saves has an empty "
        "link stack at every return on every CFG path (path-sensitive for stable correlated predicates), never unlinks an "
        "unlinked node, never links twice. R5: each row of _sexp_type_specs agrees with the ASTRecordLayout of the union "
        "member it describes (traced words are exactly the sexp fields; untraced sexp fields must be weak or listed). "
        "R3a/R3b (under-approximating, must-allocate semantics): an object returned by a function all of whose returns are fresh allocations is never (a) kept only in an unrooted local across a call that allocates on every path and used afterwards, nor (b) passed directly to a parameter that its callee reads after such a call - under the property's own quantifier (a collection before every allocation) each report is a reachable reclamation. R6: every object word emitted into bytecode with sexp_emit_word is, on every path, also pushed on the literal list by bytecode_preserve with the same expression. R4: in every VM case, sexp_context_top(ctx) has been set to at least the current top (tracked as published-minus-top through pushes/pops) before each call that may reach the allocator. R7: no call that may collect is handed a traced slot reinterpreted as a C string (objects copied from the static tables must not keep raw pointers in traced slots across a collection point). R8: sexp_release_object unlinks at most one registration per call (the preservation list counts). R9: a C pointer into the data of a fresh object known only through one local is not used after that local was overwritten and a call that may allocate followed. Not decided: schedule independence of results as such, embedder roots, Boehm/conservative configurations.")
    if tier == "thorough":
        # C02 quantifies over configurations: re-run the structural rules on the core units under each
        common.config_matrix(res, lambda p, r: (c02.run_r1(p, r), f3.r5_type_table(p, r), c02.run_r6(p, r)), violation=True)
        common.thorough_mutations(res, "C02", {
            "R1": lambda p, r: c02.run_r1(p, r),
            "R5": lambda p, r: f3.r5_type_table(p, r),
            "R6": lambda p, r: c02.run_r6(p, r),
            "R4": lambda p, r: c02.run_r4(p, r, callgraph.CallGraph(p)),
            "R7": lambda p, r: c02.run_r7(p, r, callgraph.CallGraph(p)),
            "R8": lambda p, r: c02.run_r8(p, r),
            "R9": lambda p, r: c02.run_r9(p, r, callgraph.CallGraph(p)),
            "R3": lambda p, r: (c02.run_r3b(p, r, callgraph.CallGraph(p)), c02.run_r3a(p, r, callgraph.CallGraph(p))),
        })
