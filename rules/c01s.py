"""C01.s - normalised results are not read as complex numbers.

The complex helpers of bignum.c return `sexp_complex_normalize(res)`: a result whose imaginary part is an
exact zero comes back as a *real* number.  The same helpers read their own arguments as complex numbers
(`sexp_complex_real(a)`) without looking at them.  Handing the one to the other dereferences a fixnum.

* complex-only parameters: parameters a function reads through `value.complex` on some path before any
  branch that mentions them (kind-set obligations that need `complex` and are not discharged), closed under
  "handed on just as blindly to such a parameter";
* maybe-real producers: functions a return of which is `sexp_complex_normalize(..)`, a call of such a
  function, or one of the generic entry points sexp_add / sexp_sub / sexp_mul / sexp_div;
* reported: a call that passes, for a complex-only parameter, the result of a maybe-real producer (directly
  or through a local that was last assigned from one and not tested since).
"""
from report import Finding
from kinds import KindModel, KindAnalysis
from cfg import elem_positions, enclosing_elem, reach_without

SEXP_T = "struct sexp_struct *"
GENERIC = {"sexp_add", "sexp_sub", "sexp_mul", "sexp_div"}
# constructors of numbers that are certainly not complex
REAL_MAKERS = {"sexp_make_flonum", "sexp_make_ratio", "sexp_fixnum_to_bignum", "sexp_double_to_bignum"}


def run(prog, res, floor=3, prop="C01", rule="C01.s", units=("bignum.c", "eval.c")):
    stat = res.stat(rule, "results that may have been normalised to a real are not passed to parameters read as complex numbers",
                    floor=floor)
    model = KindModel(prog)
    funcs = [f for f in prog.all_funcs() if f.blocks and f.unit.name in units]
    # complex-only parameters
    only = {}
    for fn in funcs:
        ps = [p for p in fn.params[1:] if fn.var_type(p) == SEXP_T]
        if not ps:
            continue
        ka = KindAnalysis(model, fn, {p: model.U for p in ps}).run()
        for (e, root, needk, have, ok, what) in ka.obligations:
            if not ok and "complex" in what:
                for p in ps:
                    if fn.vars[p]["n"] == root:
                        only.setdefault(fn.name, {}).setdefault(fn.params.index(p), fn.where(e))
    poses = {}

    def blind(fn, p, target):
        if fn not in poses:
            poses[fn] = elem_positions(fn)
        from cfg import local_defs
        watch = {p}
        for vid in range(len(fn.vars)):
            if vid not in fn.params and any(r is not None and p in fn.refs_in(r) for (_d, r) in local_defs(fn, vid)):
                watch.add(vid)      # at = sexp_number_type(a): a test of `at` is a test of a
        kills = {(b.id, len(b.elems)) for b in fn.blocks.values() if b.cond is not None and (watch & fn.refs_in(b.cond))}
        for j, nd in enumerate(fn.nodes):
            if nd["k"] == "bin" and nd["o"] == "=":
                l = fn.strip(nd["c"][0])
                if fn.nodes[l]["k"] == "ref" and fn.nodes[l].get("d") == p:
                    q = enclosing_elem(fn, j, poses[fn])
                    if q:
                        kills.add(q)
        q = enclosing_elem(fn, target, poses[fn])
        return q is not None and reach_without(fn, (fn.entry, -1), q, kills)
    changed = True
    while changed:
        changed = False
        for fn in funcs:
            for j, nd in enumerate(fn.nodes):
                if nd["k"] == "call" and nd.get("o") in only:
                    args = nd["c"][1:]
                    for k, w in list(only[nd["o"]].items()):
                        if k < len(args):
                            a = fn.strip(args[k])
                            if fn.nodes[a]["k"] == "ref" and fn.nodes[a].get("d") in fn.params:
                                kk = fn.params.index(fn.nodes[a]["d"])
                                if kk and kk not in only.get(fn.name, {}) and blind(fn, fn.nodes[a]["d"], j):
                                    only.setdefault(fn.name, {})[kk] = w
                                    changed = True
    # maybe-real producers
    maybe = set(GENERIC) | set(REAL_MAKERS)
    changed = True
    while changed:
        changed = False
        for fn in funcs:
            if fn.name in maybe:
                continue
            for nd in fn.nodes:
                if nd["k"] == "ret" and nd.get("c"):
                    r = fn.strip(nd["c"][0])
                    if fn.nodes[r]["k"] == "call" and (fn.nodes[r].get("o") == "sexp_complex_normalize" or fn.nodes[r].get("o") in maybe):
                        maybe.add(fn.name)
                        changed = True
                        break
    # forward may-analysis per function: locals last assigned from a maybe-real producer and not tested since
    for fn in funcs:
        order = fn.rpo()
        ins = {fn.entry: frozenset()}

        def flow(b, st, rec):
            st = set(st)
            for e in fn.blocks[b].elems:
                nd = fn.nodes[e]
                if nd["k"] == "call" and nd.get("o") in only and rec is not None:
                    args = nd["c"][1:]
                    for k, w in only[nd["o"]].items():
                        if k >= len(args):
                            continue
                        a = fn.strip(args[k])
                        an = fn.nodes[a]
                        src = None
                        if an["k"] == "call" and an.get("o") in maybe:
                            src = an["o"]
                        elif an["k"] == "ref" and an.get("d") in st:
                            src = "the local `%s`" % fn.vars[an["d"]]["n"]
                        rec.append((e, nd["o"], k, w, src))
                if nd["k"] == "bin" and nd["o"] == "=":
                    l = fn.strip(nd["c"][0])
                    if fn.nodes[l]["k"] == "ref" and "d" in fn.nodes[l]:
                        r = fn.strip(nd["c"][1])
                        while fn.nodes[r]["k"] == "bin" and fn.nodes[r]["o"] == "=":
                            r = fn.strip(fn.nodes[r]["c"][1])      # a = tmp = make(...)
                        if fn.nodes[r]["k"] == "call" and fn.nodes[r].get("o") in maybe:
                            st.add(fn.nodes[l]["d"])
                        else:
                            st.discard(fn.nodes[l]["d"])
            return st
        changed = True
        rounds = 0
        while changed and rounds < 30:
            changed = False
            rounds += 1
            for b in order:
                if b not in ins:
                    continue
                st = flow(b, ins[b], None)
                blk = fn.blocks[b]
                for s in blk.succs:
                    if s is None or s < 0 or s == fn.exit:
                        continue
                    s2 = set(st)
                    if blk.cond is not None:
                        s2 -= {v for v in s2 if v in fn.refs_in(blk.cond)}
                    new = frozenset(ins.get(s, frozenset()) | s2)
                    if new != ins.get(s):
                        ins[s] = new
                        changed = True
        rec = []
        for b in order:
            if b in ins:
                flow(b, ins[b], rec)
        seen = set()
        for (e, callee, k, w, src) in rec:
            stat.sites += 1
            stat.obligations += 1
            if src is None:
                stat.discharged += 1
                continue
            key = (fn.name, callee, k, src)
            if key in seen:
                continue
            seen.add(key)
            res.add(Finding(prop, rule + ".real-read-as-complex", fn.name, "%s argument %d from %s" % (callee, k, src.replace("the local ", "")),
                            fn.where(e), "%s passes %s - a value that sexp_complex_normalize may have turned into a real number - "
                            "as argument %d of %s, which reads it as a complex number (at %s) without a test: for a result with "
                            "an exact zero imaginary part a fixnum is dereferenced" % (fn.name, src, k, callee, w),
                            unit=fn.unit.display))
    return stat
