"""Rule family F3: table vs. layout vs. site agreement.

  C02.R5  the marker's type table covers every reference field of every union member
  C16.b   ephemeron row / weak columns
  C10.a   allocator size == sweeper size (type rows vs. record layout vs. allocation sites)
  C01.d   slot getter/setter rows designate sexp-typed fields
"""
import tables
from tables import SEXP_T, Layout
from report import Finding
from extract import AnalysisBroken

# sexp-typed fields that are deliberately not in the strongly traced range.
# (member, field) -> reason confirmed by reading; anything else is reported.
UNTRACED_OK = {
    ("string", "cached_cursor"): "holds an immediate string cursor, never a heap reference "
                                 "(all writers store sexp_make_string_cursor(...))",
}


def _disc(member, what):
    return "%s: %s" % (member, what)


# members whose traced prefix is shorter than their allocated extent
VAR_COUNT_FIELD = {"stack": "top"}
VAR_COUNT_REASON = {"stack": "slots at and above top belong to popped frames, which are never cleared: tracing them keeps "
                             "unreachable objects alive for as long as the stack is not overwritten that far"}


def r5_type_table(prog, res, prop="C02"):
    stat = res.stat("%s.R5" % prop, "type-table rows vs. ASTRecordLayout of the matching union member "
                    "(traced range covers exactly the reference fields)", floor=30)
    rows, g = tables.type_rows(prog)
    L = Layout(prog)
    unit = "sexp.c"

    def viol(rule, row, disc, msg):
        res.add(Finding(prop, rule, "_sexp_type_specs", disc, "sexp.c:%d" % row["_line"], msg, unit=unit))

    for row in rows:
        stat.sites += 1
        member = row["_member"]
        name = row["_name"]
        ok = True
        if row["tag"] != row["_index"]:
            viol("R5.row-order", row, "row %s" % name,
                 "row %d (%s) carries tag %s: rows must be in enum order because the table is indexed by tag"
                 % (row["_index"], name, row["tag"]))
            ok = False
        if member is None:
            # immediates / abstract types: nothing may be traced
            if row["field_len_base"] or row["field_len_scale"] or row["size_base"]:
                viol("R5.no-member", row, "row %s" % name,
                     "row %s traces fields or has a size but names no union member" % name)
            continue
        stat.obligations += 1
        fields = L.member_fields(member)
        if fields is None:
            raise AnalysisBroken("type row %s names union member %s which does not exist" % (name, member))
        fb, eq, ln = row["field_base"], row["field_eq_len_base"], row["field_len_base"]
        traced = set()
        for i in range(ln):
            off = fb + 8 * i
            f = L.field_at(member, off)
            if f is None or f[1] != SEXP_T:
                viol("R5.trace-nonref", row, _disc(member, "traced word %d" % i),
                     "row %s traces %d words from offset %d, but word %d (offset %d) of value.%s is %s, not a sexp "
                     "field: the marker would follow a raw word" % (name, ln, fb, i, off, member,
                                                                    ("%s %s" % (f[1], f[0])) if f else "past the member"))
                ok = False
            else:
                traced.add(off)
        for i in range(eq):
            off = fb + 8 * i
            f = L.field_at(member, off)
            if f is None or f[1] != SEXP_T:
                viol("R5.eq-nonref", row, _disc(member, "eq word %d" % i),
                     "row %s compares %d slots for equal?, but word %d of value.%s is not a sexp field" % (name, eq, i, member))
                ok = False
        weak = set()
        wb = row["weak_base"]
        if wb:
            for i in range(row["weak_len_base"] + row["weak_len_extra"]):
                weak.add(wb + 8 * i)
        for (path, ty, off, sz, f) in fields:
            if ty != SEXP_T or f.get("elem"):
                continue
            if off in traced or off in weak:
                continue
            if (member, path) in UNTRACED_OK:
                continue
            viol("R5.untraced-ref-field", row, "%s.%s" % (member, path),
                 "value.%s.%s is a sexp field outside the range the marker traces for %s "
                 "(field_base %d, %d words): an object referenced only from it is reclaimed while still reachable"
                 % (member, path, name, fb, ln))
            ok = False
        if row["field_len_scale"]:
            lo = row["field_len_off"]
            f = L.field_at(member, lo)
            if f is None or f[1] != "unsigned long":
                viol("R5.var-length-field", row, _disc(member, "field_len_off"),
                     "row %s takes its variable slot count from offset %d which is not an unsigned word field of value.%s"
                     % (name, lo, member))
                ok = False
            # which counter bounds the traced slots: the one that sizes the object, except where only a
            # prefix of the slots is live
            want = VAR_COUNT_FIELD.get(member)
            if want is None:
                fs = L.field_at(member, row["size_off"]) if row.get("size_scale") else None
                want = fs[0] if fs else None
            if f is not None and want is not None and f[0] != want:
                viol("R5.var-length-counter", row, _disc(member, "field_len_off"),
                     "row %s takes its traced slot count from value.%s.%s; the live slots of this type are counted by "
                     "value.%s.%s (%s)" % (name, member, f[0], member, want,
                                           VAR_COUNT_REASON.get(member, "the field that also sizes the object")))
                ok = False
            if row["field_len_scale"] != 1:
                viol("R5.var-length-scale", row, _disc(member, "field_len_scale"),
                     "row %s scales its slot count by %d" % (name, row["field_len_scale"]))
                ok = False
            if fb + 8 * ln != L.sexp_sizeof(member):
                viol("R5.var-base", row, _disc(member, "field_base"),
                     "row %s: variable slots must start where value.%s ends (offset %d), table says %d"
                     % (name, member, L.sexp_sizeof(member), fb + 8 * ln))
                ok = False
        if ok:
            stat.discharged += 1
            stat.sample({"row": name, "member": member, "traced_words": ln,
                         "sexp_fields": [p for (p, t, o, s, f) in fields if t == SEXP_T]})
    # C types registered at run time with constant layout arguments (sexp_register_c_type expands to
    # sexp_register_type_op(ctx, NULL, n, name, parent, slots, fb, felb, flb, flo, fls, sb, ...)):
    # objects of cpointer size must have cpointer.parent in their traced range
    cp = L.member_fields("cpointer") or []
    parent_off = [o for (p_, t, o, sz, f) in cp if p_ == "parent"]
    if parent_off:
        for fn in prog.all_funcs():
            for i, nd in enumerate(fn.nodes):
                if nd["k"] != "call" or nd.get("o") != "sexp_register_type_op" or len(nd["c"]) < 13:
                    continue
                a = nd["c"][1:]
                vals = [tables.unbox_fixnum(fn.const_val(x)) if fn.const_val(x) is not None else None for x in a]
                fb, felb, flb, sb = vals[6], vals[7], vals[8], vals[11]
                if sb != L.sexp_sizeof("cpointer") or fb is None or flb is None:
                    continue
                if "sexp_register_c_type" not in fn.macros(i):
                    continue        # some other 32-byte type with its own layout (e.g. pollfds)
                stat.sites += 1
                stat.obligations += 1
                if fb == parent_off[0] and flb >= 1 and all(
                        (L.field_at("cpointer", fb + 8 * k) or (None, None))[1] == SEXP_T for k in range(flb)):
                    stat.discharged += 1
                else:
                    res.add(Finding(prop, "R5.untraced-ref-field", fn.name, "registered C type: cpointer.parent",
                                    fn.where(i), "%s registers a cpointer-sized type whose traced range (field_base %s, %s words) "
                                    "does not cover cpointer.parent: a child pointer does not keep the parent object (and the C "
                                    "memory it owns) alive" % (fn.name, fb, flb), unit=fn.unit.display))
    return stat


def c16b_ephemeron(prog, res, cg=None):
    stat = res.stat("C16.b", "ephemeron row: weak key slot, value as the one extra slot, neither strongly traced; "
                    "value slot is marked by some mark-phase step", floor=1)
    rows, g = tables.type_rows(prog)
    L = Layout(prog)
    eph = [r for r in rows if r["_member"] == "ephemeron"]
    if not eph:
        raise AnalysisBroken("anchor vanished: no type row for union member ephemeron")
    row = eph[0]
    stat.sites += 1
    fields = {p: o for (p, t, o, s, f) in L.member_fields("ephemeron")}
    if "key" not in fields or "value" not in fields:
        raise AnalysisBroken("anchor vanished: ephemeron.key/value")
    checks = [
        ("weak_base", row["weak_base"] == fields["key"], "weak_base must be the offset of key (%d), is %d" % (fields["key"], row["weak_base"])),
        ("weak_len_base", row["weak_len_base"] == 1 and row["weak_len_scale"] == 0, "exactly one weak slot (the key)"),
        ("weak_len_extra", row["weak_len_extra"] == 1 and row["weak_base"] + 8 == fields["value"],
         "weak_len_extra must be 1 and the slot after key must be value"),
        ("field_len_base", row["field_len_base"] == 0 and row["field_len_scale"] == 0,
         "key/value must not be strongly traced by the type row (field_len_base %d)" % row["field_len_base"]),
    ]
    for (what, ok, msg) in checks:
        stat.obligations += 1
        if ok:
            stat.discharged += 1
        else:
            res.add(Finding("C16", "C16.b.row", "_sexp_type_specs", "ephemeron " + what,
                            "sexp.c:%d" % row["_line"], "Ephemeron row: " + msg, unit="sexp.c"))
    stat.sample({"row": "Ephemeron", "weak_base": row["weak_base"], "weak_len_base": row["weak_len_base"],
                 "weak_len_extra": row["weak_len_extra"], "field_len_base": row["field_len_base"]})
    # value retention: some function that runs inside a collection must read the
    # weak columns AND be able to mark - otherwise the value of a live key is swept.
    if cg is not None:
        stat.obligations += 1
        marks = cg.reaches_any({"sexp_mark_one"})
        readers = []
        for fn in cg.funcs:
            if fn.unit.name != "gc.c":
                continue
            if any(nd["k"] == "mem" and nd["o"] in ("weak_len_extra", "weak_base") for nd in fn.nodes):
                readers.append(fn)
        stat.sites += len(readers)
        marking = [f for f in readers if f in marks]
        if marking:
            stat.discharged += 1
        else:
            res.add(Finding("C16", "C16.b.value-unmarked", "sexp_gc", "ephemeron.value",
                            "sexp.c:%d" % row["_line"],
                            "the ephemeron value slot is outside the strongly traced range and no function that reads the "
                            "weak columns (%s) can reach the marker: the value of an ephemeron whose key is alive is "
                            "never marked and is swept while still referenced"
                            % ", ".join(f.name for f in readers), unit="gc.c"))
    return stat


# ------------------------------------------------------------------ C10

ALLOCS = {"sexp_alloc_tagged_aux": (1, 2), "sexp_alloc": (1, None)}
HEAP_ALIGN = 32


def _halign(n):
    return (n + HEAP_ALIGN - 1) & ~(HEAP_ALIGN - 1)


def _result_var(fn, call):
    """text of the lvalue the call result is stored in (through casts), else None"""
    cur = call
    while True:
        p = fn.parent(cur)
        if p is None:
            return None, None
        pk = fn.nodes[p]["k"]
        if pk == "cast":
            cur = p
            continue
        if pk == "bin" and fn.nodes[p]["o"] == "=" and fn.nodes[p]["c"][1] == cur:
            return fn.txt(fn.nodes[p]["c"][0]), p
        if pk == "decl":
            return fn.nodes[p]["o"], p
        if pk == "ret":
            return "<returned>", p
        return None, p


def c10a_alloc_sites(prog, res):
    from cfg import linform, lin_sub, elem_positions, enclosing_elem, redefined_between
    stat = res.stat("C10.a", "allocation sites: size expression == size the sweeper recomputes from the type row "
                    "(size_base + length*size_scale), length field stored with the same n", floor=45)
    rows, g = tables.type_rows(prog)
    L = Layout(prog)
    by_tag = {r["tag"]: r for r in rows}
    # rows themselves: fixed rows must have the exact struct size
    for row in rows:
        m = row["_member"]
        if m is None:
            continue
        stat.sites += 1
        stat.obligations += 1
        want = L.sexp_sizeof(m)
        extra = row["size_base"] - want
        okrow = True
        if row["size_scale"] == 0:
            if _halign(row["size_base"]) != _halign(want) or row["size_base"] < want:
                okrow = False
                msg = "row %s: size_base %d but sizeof header+value.%s is %d" % (row["_name"], row["size_base"], m, want)
        else:
            f = L.field_at(m, row["size_off"])
            if f is None or f[1] != "unsigned long":
                okrow = False
                msg = "row %s: size_off %d is not an unsigned word field of value.%s" % (row["_name"], row["size_off"], m)
            elif extra < 0 or extra > 1:
                okrow = False
                msg = "row %s: size_base %d vs sizeof %d" % (row["_name"], row["size_base"], want)
        if okrow:
            stat.discharged += 1
        else:
            res.add(Finding("C10", "C10.a.row-size", "_sexp_type_specs", "row %s size" % row["_name"],
                            "sexp.c:%d" % row["_line"], msg, unit="sexp.c"))
    for fn in prog.all_funcs():
        for i, nd in enumerate(fn.nodes):
            if nd["k"] != "call" or nd.get("o") not in ALLOCS:
                continue
            if fn.name == "sexp_alloc_tagged_aux":
                continue
            si, ti = ALLOCS[nd["o"]]
            args = nd["c"][1:]
            size_n = args[si]
            stat.sites += 1
            var, holder = _result_var(fn, i)
            tagv = None
            tag_desc = None
            if ti is not None:
                tagv = fn.const_val(args[ti])
                tag_desc = fn.txt(args[ti])
            else:
                # raw sexp_alloc: find the tag store on the result variable
                for j, n2 in enumerate(fn.nodes):
                    if n2["k"] == "bin" and n2["o"] == "=":
                        lhs = fn.strip(n2["c"][0])
                        if fn.nodes[lhs]["k"] == "mem" and fn.nodes[lhs]["o"] == "tag" and var and \
                                fn.txt(fn.strip(fn.nodes[lhs]["c"][0])) == var:
                            tagv = fn.const_val(n2["c"][1])
                            tag_desc = fn.txt(n2["c"][1])
                if tagv is None and fn.name == "sexp_alloc_tagged_aux":
                    continue
            disc = "%s %s" % (nd["o"], tag_desc or "?")
            if tagv is None:
                # dynamic tag: user-registered type; by-construction sites are named in evidence
                lf = linform(fn, size_n)
                stat.sample({"site": fn.where(i), "function": fn.name, "tag": tag_desc,
                             "size": fn.txt(size_n)[:60], "verdict": "dynamic tag - size not compared against a core row"}, limit=3)
                continue
            row = by_tag.get(tagv)
            if row is None or row["_member"] is None:
                res.add(Finding("C10", "C10.a.unknown-tag", fn.name, disc, fn.where(i),
                                "allocation with tag %s that has no sized type row" % tag_desc, unit=fn.unit.display))
                continue
            stat.obligations += 1
            lf = linform(fn, size_n)
            if row["size_scale"] == 0:
                if lf[1] or _halign(lf[0]) != _halign(row["size_base"]) or lf[0] < row["size_base"]:
                    res.add(Finding("C10", "C10.a.fixed-size", fn.name, disc, fn.where(i),
                                    "allocates %s bytes for a %s but the sweeper computes %d from the type row: the sweep "
                                    "would walk into the middle of the next object"
                                    % (fn.txt(size_n)[:60], row["_name"], row["size_base"]), unit=fn.unit.display))
                else:
                    stat.discharged += 1
                    if lf[0] != row["size_base"]:
                        res.notes.append("%s: %s allocated with %d bytes, row says %d (same %d-byte chunk)"
                                         % (fn.where(i), row["_name"], lf[0], row["size_base"], HEAP_ALIGN))
                continue
            # variable-size row: find the store to the length field
            m = row["_member"]
            lf_field = L.field_at(m, row["size_off"])[0]
            stores = []
            for j, n2 in enumerate(fn.nodes):
                if n2["k"] == "bin" and n2["o"] == "=":
                    lhs = fn.strip(n2["c"][0])
                    ln = fn.nodes[lhs]
                    if ln["k"] == "mem" and ln["o"] == lf_field:
                        root, path = fn.mempath(lhs)
                        if path[:1] == ["value"] and len(path) == 3 and fn.txt(root) == var:
                            stores.append((j, n2["c"][1], path[1]))
            if not stores:
                res.add(Finding("C10", "C10.a.no-length-store", fn.name, disc, fn.where(i),
                                "allocates a variable-size %s but never stores its %s field, which the sweeper multiplies "
                                "by %d to find the object's end" % (row["_name"], lf_field, row["size_scale"]),
                                unit=fn.unit.display))
                continue
            bad = None
            pos = elem_positions(fn)
            pa = enclosing_elem(fn, i, pos)
            # a size that was computed into a local earlier (new_bytes = base + scale*n): the variables of that
            # computation must still have the same values at the allocation
            from cfg import local_defs as _ld10
            stale = None
            for v in fn.refs_in(size_n):
                if v in fn.params:
                    continue
                ds = [(d, r) for (d, r) in _ld10(fn, v) if r is not None]
                if len(ds) == 1:
                    pdv = enclosing_elem(fn, ds[0][0], pos)
                    for x in fn.refs_in(ds[0][1]):
                        if pdv and pa and redefined_between(fn, x, pdv, pa, pos):
                            stale = (v, x)
            if stale:
                res.add(Finding("C10", "C10.a.var-size", fn.name, disc, fn.where(i),
                                "allocates %s bytes for a %s, a size computed into `%s` before `%s` was changed again: the length "
                                "stored afterwards no longer matches the bytes allocated, so the sweeper's extent (%d + %s*%d) and the "
                                "allocation disagree" % (fn.txt(size_n)[:40], row["_name"], fn.vars[stale[0]]["n"], fn.vars[stale[1]]["n"],
                                                          row["size_base"], lf_field, row["size_scale"]), unit=fn.unit.display))
                continue
            for (j, rhs, mem) in stores:
                ls = linform(fn, rhs)
                diff = lin_sub(lin_sub(lf, (row["size_base"], {})), ls, row["size_scale"])
                if diff[1] or not (0 <= diff[0] <= 0):
                    bad = (j, rhs, diff)
                    continue
                # the same symbol must denote the same value at both places
                pb = enclosing_elem(fn, j, pos)
                for x in set(fn.refs_in(size_n)) | set(fn.refs_in(rhs)):
                    if pa and pb and redefined_between(fn, x, pa, pb, pos):
                        bad = (j, rhs, (0, {"%s redefined between allocation and length store" % fn.vars[x]["n"]: 1}))
            if bad:
                res.add(Finding("C10", "C10.a.var-size", fn.name, disc, fn.where(i),
                                "allocates %s bytes for a %s and stores %s = %s, but the sweeper computes %d + %s*%d: "
                                "extents disagree (difference %s)"
                                % (fn.txt(size_n)[:60], row["_name"], lf_field, fn.txt(bad[1])[:40], row["size_base"],
                                   lf_field, row["size_scale"], _lf_txt(bad[2])), unit=fn.unit.display))
            else:
                stat.discharged += 1
                stat.sample({"site": fn.where(i), "function": fn.name, "row": row["_name"],
                             "alloc": fn.txt(size_n)[:50], "length_store": fn.txt(stores[0][1])[:40],
                             "sweeper": "%d + %s*%d" % (row["size_base"], lf_field, row["size_scale"])})
    return stat


def _lf_txt(lf):
    parts = [str(lf[0])] + ["%+d*%s" % (c, t) for t, c in lf[1].items()]
    return " ".join(parts)


def c10b_length_writers(prog, res):
    from cfg import dominators, elem_positions, enclosing_elem, dominates
    stat = res.stat("C10.b", "stores to size-determining length fields happen only on an object allocated in the "
                    "same function (construction), never on a live object", floor=5)
    rows, g = tables.type_rows(prog)
    L = Layout(prog)
    sizefields = {}
    for row in rows:
        if row["_member"] and row["size_scale"]:
            f = L.field_at(row["_member"], row["size_off"])
            if f:
                sizefields[(row["_member"], f[0])] = row
    # members sharing a layout with a sized member through retagging (symbol <- bytes)
    for fn in prog.all_funcs():
        pos = None
        for i, nd in enumerate(fn.nodes):
            if nd["k"] != "bin" or not nd["o"].endswith("=") or nd["o"] in ("==", "!=", "<=", ">="):
                continue
            lhs = fn.strip(nd["c"][0])
            ln = fn.nodes[lhs]
            if ln["k"] != "mem":
                continue
            root, path = fn.mempath(lhs)
            if len(path) != 3 or path[0] != "value" or (path[1], path[2]) not in sizefields:
                continue
            stat.sites += 1
            stat.obligations += 1
            base = fn.txt(root)
            if pos is None:
                pos = elem_positions(fn)
                dom = dominators(fn)
            here = enclosing_elem(fn, i, pos)
            fresh = False
            for j, n2 in enumerate(fn.nodes):
                if n2["k"] == "call" and n2.get("o") in ALLOCS:
                    var, holder = _result_var(fn, j)
                    if var == base and dominates(dom, enclosing_elem(fn, j, pos), here):
                        fresh = True
            if fresh and nd["o"] == "=":
                stat.discharged += 1
                stat.sample({"site": fn.where(i), "function": fn.name, "store": "%s.%s of %s" % (path[1], path[2], base),
                             "verdict": "object allocated earlier in the same function on every path"})
            else:
                res.add(Finding("C10", "C10.b.resize-live-object", fn.name, "%s.%s of %s" % (path[1], path[2], base),
                                fn.where(i),
                                "writes %s.%s (which the sweeper uses to compute the object's extent) on an object that was "
                                "not allocated in this function: shrinking or growing a live object in place leaves a gap "
                                "or an overlap the sweep cannot parse" % (path[1], path[2]), unit=fn.unit.display))
    return stat


# ------------------------------------------------------------------ C10.c heap segment sizes are granule aligned

def _aligned(fn, n, at_pos, pos, dom, depth=0):
    """is integer expression n certainly a multiple of the heap granule (HEAP_ALIGN)?"""
    from cfg import local_defs, enclosing_elem, dominates
    if n is None or n < 0 or depth > 8:
        return False
    nd = fn.nodes[n]
    k = nd["k"]
    if "v" in nd and k in ("int", "const", "ref"):
        return nd["v"] % HEAP_ALIGN == 0
    if k == "cast":
        return _aligned(fn, nd["c"][0], at_pos, pos, dom, depth + 1)
    if k == "bin":
        o = nd["o"]
        a, b = nd["c"]
        if o == "&":
            for x in (a, b):
                v = fn.const_val(x)
                if v is not None and (v & (HEAP_ALIGN - 1)) == 0:
                    return True
            return False
        if o in ("+", "-"):
            return _aligned(fn, a, at_pos, pos, dom, depth + 1) and _aligned(fn, b, at_pos, pos, dom, depth + 1)
        if o == "*":
            for x, y in ((a, b), (b, a)):
                if _aligned(fn, x, at_pos, pos, dom, depth + 1):
                    ys = fn.strip(y)
                    yt = fn.type(ys) or ""
                    if fn.nodes[ys]["k"] == "int" or (fn.nodes[ys]["k"] in ("const", "ref", "call") and
                                                      not any(t in yt for t in ("double", "float"))):
                        return True
            return False
        if o in ("<<",):
            return _aligned(fn, a, at_pos, pos, dom, depth + 1)
        return False
    if k == "cond":
        return _aligned(fn, nd["c"][1], at_pos, pos, dom, depth + 1) and _aligned(fn, nd["c"][2], at_pos, pos, dom, depth + 1)
    if k == "call" and nd.get("o") in ("ceil", "floor", "__builtin_ceil", "__builtin_floor", "round"):
        return _aligned(fn, nd["c"][1], at_pos, pos, dom, depth + 1)
    if k == "ref" and "d" in nd:
        defs = local_defs(fn, nd["d"])
        defs = [(d, r) for (d, r) in defs if r is not None]
        if nd["d"] in fn.params:
            # a parameter counts only through an assignment that dominates the use
            good = [(d, r) for (d, r) in defs if dominates(dom, enclosing_elem(fn, d, pos), at_pos)]
            return bool(good) and all(_aligned(fn, r, at_pos, pos, dom, depth + 1) for (d, r) in defs)
        return bool(defs) and all(_aligned(fn, r, at_pos, pos, dom, depth + 1) for (d, r) in defs)
    if k == "mem" and nd["o"] == "size":
        return True      # size of an existing heap segment (aligned by induction on this rule)
    return False


def c10c_heap_sizes(prog, res):
    from cfg import dominators, elem_positions, enclosing_elem
    stat = res.stat("C10.c", "every heap segment is created with a size that is a multiple of the %d-byte granule" % HEAP_ALIGN,
                    floor=2)
    for fn in prog.all_funcs():
        pos = dom = None
        for i, nd in enumerate(fn.nodes):
            if nd["k"] == "call" and nd.get("o") == "sexp_make_heap" and len(nd["c"]) > 1:
                stat.sites += 1
                stat.obligations += 1
                if pos is None:
                    pos = elem_positions(fn)
                    dom = dominators(fn)
                here = enclosing_elem(fn, i, pos)
                if _aligned(fn, nd["c"][1], here, pos, dom):
                    stat.discharged += 1
                    stat.sample({"site": fn.where(i), "function": fn.name, "size": fn.txt(nd["c"][1])[:60]})
                else:
                    res.add(Finding("C10", "C10.c.unaligned-heap-size", fn.name, "sexp_make_heap(%s)" % fn.txt(nd["c"][1])[:50],
                                    fn.where(i), "%s creates a heap segment whose size `%s` is not provably a multiple of "
                                    "the %d-byte allocation granule: the segment's end and its last free chunk then fall "
                                    "between granules and the heap can no longer be parsed as a tiling of objects and free chunks"
                                    % (fn.name, fn.txt(nd["c"][1])[:60], HEAP_ALIGN), unit=fn.unit.display))
    return stat


def c10d_heap_walk_bounds(prog, res, floor=3):
    """every walk over the objects of a heap segment - a loop that advances a pointer by the allocated size of the
    object it points at and runs while `p < end` - takes `end` to be h->data + h->size, the end of the segment:
    a walker that stops one block early never visits the last object (it is not swept, finalized or has its weak
    references reset), one that runs further parses memory that is not the heap's"""
    from cfg import linform, local_defs
    stat = res.stat("C10.d", "heap walks (sweep, finalize, weak reset, statistics) run up to h->data + h->size exactly", floor=floor)
    for fn in prog.all_funcs():
        if not fn.blocks:
            continue
        sizes = [i for i, nd in enumerate(fn.nodes) if nd["k"] == "call" and nd.get("o") in
                 ("sexp_allocated_bytes", "sexp_gc_allocated_bytes")]
        if not sizes:
            continue
        for b in fn.blocks.values():
            if b.cond is None or b.term not in ("WhileStmt", "ForStmt", "DoStmt"):
                continue
            c = fn.strip(b.cond)
            cn = fn.nodes[c]
            if cn["k"] != "bin" or cn["o"] not in ("<", "<="):
                continue
            l, r = fn.strip(cn["c"][0]), fn.strip(cn["c"][1])
            if fn.nodes[l]["k"] != "ref" or fn.nodes[r]["k"] != "ref" or "d" not in fn.nodes[r]:
                continue
            if "*" not in (fn.type(l) or "") or "*" not in (fn.type(r) or ""):
                continue
            defs = [rhs for (_d, rhs) in local_defs(fn, fn.nodes[r]["d"]) if rhs is not None]
            if not defs:
                continue
            stat.sites += 1
            stat.obligations += 1
            bad = None
            for rhs in defs:
                t = fn.txt(rhs)
                lf = linform(fn, rhs, subst=False)
                terms = sorted(lf[1]) if lf else []
                ok = lf is not None and lf[0] == 0 and len(terms) == 2 and any(x.endswith("->data") for x in terms) \
                    and any(x.endswith("->size") for x in terms) and all(v == 1 for v in lf[1].values()) and cn["o"] == "<"
                if not ok:
                    bad = t
            if bad is None:
                stat.discharged += 1
                stat.sample({"function": fn.name, "bound": fn.txt(defs[0])[:40]})
            else:
                res.add(Finding("C10", "C10.d.heap-walk-bound", fn.name, "walk bound", fn.where(c),
                                "%s walks the objects of a heap segment while p %s %s with that bound set to %s, not to the end of "
                                "the segment (h->data + h->size): objects in the last block(s) are never visited - not swept, not "
                                "finalized, their weak references not reset - or the walk parses memory behind the heap"
                                % (fn.name, cn["o"], fn.txt(r), bad[:60]), unit=fn.unit.display))
    return stat
