"""Rule family F3: table vs. layout vs. site agreement.

  C02.R5  the marker's type table covers every reference field of every union member
  C16.b   ephemeron row / weak columns
  C10.a   allocator size == sweeper size (type rows vs. record layout vs. allocation sites)
  C01.d   slot getter/setter rows designate sexp-typed fields
"""
import tables
from tables import SEXP_T, Layout
from report import Finding
from extract import AnalysisBroken

# sexp-typed fields that are deliberately not in the strongly traced range.
# (member, field) -> reason confirmed by reading; anything else is reported.
UNTRACED_OK = {
    ("string", "cached_cursor"): "holds an immediate string cursor, never a heap reference "
                                 "(all writers store sexp_make_string_cursor(...))",
}


def _disc(member, what):
    return "%s: %s" % (member, what)


def r5_type_table(prog, res, prop="C02"):
    stat = res.stat("%s.R5" % prop, "type-table rows vs. ASTRecordLayout of the matching union member "
                    "(traced range covers exactly the reference fields)", floor=30)
    rows, g = tables.type_rows(prog)
    L = Layout(prog)
    unit = "sexp.c"

    def viol(rule, row, disc, msg):
        res.add(Finding(prop, rule, "_sexp_type_specs", disc, "sexp.c:%d" % row["_line"], msg, unit=unit))

    for row in rows:
        stat.sites += 1
        member = row["_member"]
        name = row["_name"]
        ok = True
        if row["tag"] != row["_index"]:
            viol("R5.row-order", row, "row %s" % name,
                 "row %d (%s) carries tag %s: rows must be in enum order because the table is indexed by tag"
                 % (row["_index"], name, row["tag"]))
            ok = False
        if member is None:
            # immediates / abstract types: nothing may be traced
            if row["field_len_base"] or row["field_len_scale"] or row["size_base"]:
                viol("R5.no-member", row, "row %s" % name,
                     "row %s traces fields or has a size but names no union member" % name)
            continue
        stat.obligations += 1
        fields = L.member_fields(member)
        if fields is None:
            raise AnalysisBroken("type row %s names union member %s which does not exist" % (name, member))
        fb, eq, ln = row["field_base"], row["field_eq_len_base"], row["field_len_base"]
        traced = set()
        for i in range(ln):
            off = fb + 8 * i
            f = L.field_at(member, off)
            if f is None or f[1] != SEXP_T:
                viol("R5.trace-nonref", row, _disc(member, "traced word %d" % i),
                     "row %s traces %d words from offset %d, but word %d (offset %d) of value.%s is %s, not a sexp "
                     "field: the marker would follow a raw word" % (name, ln, fb, i, off, member,
                                                                    ("%s %s" % (f[1], f[0])) if f else "past the member"))
                ok = False
            else:
                traced.add(off)
        for i in range(eq):
            off = fb + 8 * i
            f = L.field_at(member, off)
            if f is None or f[1] != SEXP_T:
                viol("R5.eq-nonref", row, _disc(member, "eq word %d" % i),
                     "row %s compares %d slots for equal?, but word %d of value.%s is not a sexp field" % (name, eq, i, member))
                ok = False
        weak = set()
        wb = row["weak_base"]
        if wb:
            for i in range(row["weak_len_base"] + row["weak_len_extra"]):
                weak.add(wb + 8 * i)
        for (path, ty, off, sz, f) in fields:
            if ty != SEXP_T or f.get("elem"):
                continue
            if off in traced or off in weak:
                continue
            if (member, path) in UNTRACED_OK:
                continue
            viol("R5.untraced-ref-field", row, "%s.%s" % (member, path),
                 "value.%s.%s is a sexp field outside the range the marker traces for %s "
                 "(field_base %d, %d words): an object referenced only from it is reclaimed while still reachable"
                 % (member, path, name, fb, ln))
            ok = False
        if row["field_len_scale"]:
            lo = row["field_len_off"]
            f = L.field_at(member, lo)
            if f is None or f[1] != "unsigned long":
                viol("R5.var-length-field", row, _disc(member, "field_len_off"),
                     "row %s takes its variable slot count from offset %d which is not an unsigned word field of value.%s"
                     % (name, lo, member))
                ok = False
            if row["field_len_scale"] != 1:
                viol("R5.var-length-scale", row, _disc(member, "field_len_scale"),
                     "row %s scales its slot count by %d" % (name, row["field_len_scale"]))
                ok = False
            if fb + 8 * ln != L.sexp_sizeof(member):
                viol("R5.var-base", row, _disc(member, "field_base"),
                     "row %s: variable slots must start where value.%s ends (offset %d), table says %d"
                     % (name, member, L.sexp_sizeof(member), fb + 8 * ln))
                ok = False
        if ok:
            stat.discharged += 1
            stat.sample({"row": name, "member": member, "traced_words": ln,
                         "sexp_fields": [p for (p, t, o, s, f) in fields if t == SEXP_T]})
    return stat


def c16b_ephemeron(prog, res, cg=None):
    stat = res.stat("C16.b", "ephemeron row: weak key slot, value as the one extra slot, neither strongly traced; "
                    "value slot is marked by some mark-phase step", floor=1)
    rows, g = tables.type_rows(prog)
    L = Layout(prog)
    eph = [r for r in rows if r["_member"] == "ephemeron"]
    if not eph:
        raise AnalysisBroken("anchor vanished: no type row for union member ephemeron")
    row = eph[0]
    stat.sites += 1
    fields = {p: o for (p, t, o, s, f) in L.member_fields("ephemeron")}
    if "key" not in fields or "value" not in fields:
        raise AnalysisBroken("anchor vanished: ephemeron.key/value")
    checks = [
        ("weak_base", row["weak_base"] == fields["key"], "weak_base must be the offset of key (%d), is %d" % (fields["key"], row["weak_base"])),
        ("weak_len_base", row["weak_len_base"] == 1 and row["weak_len_scale"] == 0, "exactly one weak slot (the key)"),
        ("weak_len_extra", row["weak_len_extra"] == 1 and row["weak_base"] + 8 == fields["value"],
         "weak_len_extra must be 1 and the slot after key must be value"),
        ("field_len_base", row["field_len_base"] == 0 and row["field_len_scale"] == 0,
         "key/value must not be strongly traced by the type row (field_len_base %d)" % row["field_len_base"]),
    ]
    for (what, ok, msg) in checks:
        stat.obligations += 1
        if ok:
            stat.discharged += 1
        else:
            res.add(Finding("C16", "C16.b.row", "_sexp_type_specs", "ephemeron " + what,
                            "sexp.c:%d" % row["_line"], "Ephemeron row: " + msg, unit="sexp.c"))
    stat.sample({"row": "Ephemeron", "weak_base": row["weak_base"], "weak_len_base": row["weak_len_base"],
                 "weak_len_extra": row["weak_len_extra"], "field_len_base": row["field_len_base"]})
    # value retention: some function that runs inside a collection must read the
    # weak columns AND be able to mark - otherwise the value of a live key is swept.
    if cg is not None:
        stat.obligations += 1
        marks = cg.reaches_any({"sexp_mark_one"})
        readers = []
        for fn in cg.funcs:
            if fn.unit.name != "gc.c":
                continue
            if any(nd["k"] == "mem" and nd["o"] in ("weak_len_extra", "weak_base") for nd in fn.nodes):
                readers.append(fn)
        stat.sites += len(readers)
        marking = [f for f in readers if f in marks]
        if marking:
            stat.discharged += 1
        else:
            res.add(Finding("C16", "C16.b.value-unmarked", "sexp_gc", "ephemeron.value",
                            "sexp.c:%d" % row["_line"],
                            "the ephemeron value slot is outside the strongly traced range and no function that reads the "
                            "weak columns (%s) can reach the marker: the value of an ephemeron whose key is alive is "
                            "never marked and is swept while still referenced"
                            % ", ".join(f.name for f in readers), unit="gc.c"))
    return stat
