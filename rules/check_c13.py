import extract
from rules import c13, common


def run(res, tier, replay=None):
    prog = extract.load_program("default")
    res.functions = sum(1 for _ in prog.all_funcs())
    c13.run(prog, res)
    c13.run_libc(prog, res)
    res.assumptions = common.ASSUMPTIONS + ["state inside libc / dlopen'ed libraries is out of scope",
                                            "external functions write only through non-const pointer parameters"]
    res.explanation = (
        "C13, inventory clause: every variable with static storage defined in a parsed unit (file-scope and function-local "
        "statics of the core, the C-backed libraries and main.c) is either never written - no store, increment, or address handed "
        "to a parameter through which the callee writes (one level of callee summaries, memcpy-style externals by table, other "
        "externals by const-ness of the parameter) - or is in the audited table with its allowed writer functions and the reason "
        "it does not couple independent contexts. A second table audits every call of a libc interface with hidden process-wide state (rand/random, strtok, localtime, getenv ...). Not decided: races inside libc, TSan-level absence of races, heap/symbol-table "
        "disjointness at run time.")
    if tier == "thorough":
        common.thorough_mutations(res, "C13", {"C13": lambda p, r: c13.run(p, r),
                                                   "C13.libc": lambda p, r: c13.run_libc(p, r, floor=0)})
