"""C01.i - index guards: an index that comes from the program is compared against the length of
the very object it indexes before the object's data is touched.

Sites (discovered, not listed): every subscript / pointer addition whose base is the data of a
heap object (vector data, bytes data, string bytes + offset) and whose index - after replacing
locals by their reaching definition - contains the unboxed value of an operand the program
controls: a sexp parameter of the function or a VM stack slot.  Helpers that perform such an access
on their own parameters without a guard are summarised (object parameter, index parameter) and the
obligation moves to each of their call sites, where it applies to whatever index is passed.

Obligation: branch edges that every path to the access must take imply
    0 <= index          and          index < length(object)      (<= for a pointer that is only formed)
with length(object) the length field of the *same* object expression.
"""
import tables
from cfg import dominators, elem_positions, enclosing_elem, implied, local_defs, block_reach
from report import Finding
from extract import AnalysisBroken

SEXP_T = tables.SEXP_T

UNBOX = {(-2, 2): "fixnum", (-3, 8): "cursor"}


class Ctx:
    """per-function caches"""

    def __init__(self, fn):
        self.fn = fn
        self.pos = elem_positions(fn)
        self.dom = dominators(fn)
        self.reach = fn.reachable_blocks()
        self._defs = {}
        self._breach = {}
        self._avoid = {}
        self._ra = {}
        self.avail = None
        self.lin = {}
        self.prog = None
        self._mr = {}

    def defs(self, vid):
        if vid not in self._defs:
            out = []
            for (d, rhs) in local_defs(self.fn, vid):
                p = enclosing_elem(self.fn, d, self.pos)
                if p is not None and p[0] in self.reach:
                    out.append((d, rhs, p))
            self._defs[vid] = out
        return self._defs[vid]

    def breach(self, b):
        if b not in self._breach:
            self._breach[b] = block_reach(self.fn, b)
        return self._breach[b]

    def _reach_avoid(self, src_block, avoid_block):
        """blocks enterable from the successors of src_block without entering avoid_block
        (avoid_block itself is included when it can be entered, but is not expanded)"""
        key = (src_block, avoid_block)
        if key not in self._ra:
            fn = self.fn
            seen = set()
            st = [s for s in fn.blocks[src_block].succs if s is not None and s >= 0]
            while st:
                x = st.pop()
                if x in seen:
                    continue
                seen.add(x)
                if x == avoid_block:
                    continue
                for s2 in fn.blocks[x].succs:
                    if s2 is not None and s2 >= 0:
                        st.append(s2)
            self._ra[key] = seen
        return self._ra[key]

    def can_reach_avoiding(self, src, dst, avoid):
        """is there a path that starts right after position src, arrives at dst, and does not
        execute position avoid on the way?"""
        sb, si = src
        db, di = dst
        ab, ai = avoid
        if sb == db and si < di and not (ab == sb and si < ai < di):
            return True
        if ab == sb and ai > si:
            return False          # avoid is executed before the block is left
        ent = self._reach_avoid(sb, ab)
        if db not in ent:
            return False
        if db == ab:
            return di <= ai       # dst sits before avoid in the avoided block
        return True

    def may_redefine(self, vid, pa, pb):
        """may `vid` be written after the last execution of position pa and before pb?"""
        key = (vid, pa, pb)
        if key not in self._mr:
            r = False
            for (_d, _r, pd) in self.defs(vid):
                if pd == pa:
                    continue
                if self.can_reach_avoiding(pd, pb, pa):
                    r = True
                    break
            self._mr[key] = r
        return self._mr[key]

    def reaching(self, vid, at):
        """rhs of the unique definition of local `vid` that reaches position `at`, else None"""
        cands = []
        for (d, rhs, pd) in self.defs(vid):
            if pd == at:
                continue
            if pd[0] == at[0]:
                if pd[1] < at[1]:
                    cands.append((d, rhs, pd))
            elif pd[0] in self.dom.get(at[0], ()):
                cands.append((d, rhs, pd))
        best = None
        for (d, rhs, pd) in cands:
            if not self.may_redefine(vid, pd, at):
                if best is not None:
                    return None
                best = (d, rhs, pd)
        if best is None or best[1] is None:
            return None
        return best

    def edge_needed(self, b, idx, target_block):
        """must every path to target_block leave block b through successor #idx the last time it
        passes b?  (the other successor cannot reach the target without coming back through b)"""
        key = (b, idx)
        if key not in self._avoid:
            fn = self.fn
            other = [s for j, s in enumerate(fn.blocks[b].succs) if j != idx and s is not None and s >= 0]
            seen = set()
            st = list(other)
            while st:
                x = st.pop()
                if x in seen or x == b:
                    continue
                seen.add(x)
                for s in fn.blocks[x].succs:
                    if s is not None and s >= 0:
                        st.append(s)
            self._avoid[key] = seen
        return target_block not in self._avoid[key]


def unbox_operand(fn, n, want_kind=False):
    """((X & -2) / 2) or ((X & -3) / 8)  ->  X   (kind 'f' fixnum / 'c' string cursor)"""
    n = fn.strip(n)
    nd = fn.nodes[n]
    if nd["k"] != "bin" or nd["o"] not in ("/", ">>"):
        return None
    c2 = fn.const_val(nd["c"][1])
    a = fn.strip(nd["c"][0])
    an = fn.nodes[a]
    if an["k"] == "bin" and an["o"] == "&":
        c1 = fn.const_val(an["c"][1])
        if (c1, c2) in UNBOX:
            x = fn.strip(an["c"][0])
            return (x, UNBOX[(c1, c2)][0]) if want_kind else x
    return None


def box_operand(fn, n, want_kind=False):
    """((N * 2) | 1), ((N << 1) + 1), ((N * 8) | 2)  ->  N"""
    n = fn.strip(n)
    nd = fn.nodes[n]
    if nd["k"] == "bin" and nd["o"] in ("|", "+"):
        tag = fn.const_val(nd["c"][1])
        a = fn.strip(nd["c"][0])
        an = fn.nodes[a]
        if an["k"] == "bin" and an["o"] in ("*", "<<"):
            m = fn.const_val(an["c"][1])
            if (an["o"], m, tag) in (("*", 2, 1), ("<<", 1, 1), ("*", 8, 2), ("<<", 3, 2)):
                x = fn.strip(an["c"][0])
                return (x, "f" if tag == 1 else "c") if want_kind else x
    return None


def add(a, b, s=1):
    t = dict(a[1])
    for k, c in b[1].items():
        t[k] = t.get(k, 0) + s * c
    return (a[0] + s * b[0], {k: c for k, c in t.items() if c})


def canon_boxed(cx, n, at, depth=0, kind="f"):
    """linear form of the integer that unboxing (as `kind`: f fixnum / c string cursor) the boxed
    expression n yields; boxing and unboxing cancel only when the kinds agree"""
    fn = cx.fn
    n = fn.strip(n)
    nd = fn.nodes[n]
    inner = box_operand(fn, n, True)
    if inner is not None and inner[1] == kind:
        return canon(cx, inner[0], at, depth + 1)
    cv = fn.const_val(n)
    if cv is not None:
        if kind == "f" and (cv & 1) == 1:
            return (cv >> 1, {})
        if kind == "c" and (cv & 7) == 2:
            return (cv >> 3, {})
    if inner is None and nd["k"] == "ref" and "d" in nd and nd["d"] not in fn.params and depth < 8:
        r = cx.reaching(nd["d"], at)
        if r is not None:
            rhs = fn.strip(r[1])
            if box_operand(fn, rhs) is not None or fn.nodes[rhs]["k"] == "ref" or fn.const_val(rhs) is not None:
                return canon_boxed(cx, rhs, r[2], depth + 1, kind)
    return (0, {"U%s(%s)" % (kind, fn.txt(n)): 1})


def canon(cx, n, at, depth=0):
    """(const, {term: coeff}) of an integer expression evaluated at CFG position `at`"""
    fn = cx.fn
    if n is None or n < 0:
        return (0, {"?": 1})
    n = fn.strip(n)
    nd = fn.nodes[n]
    k = nd["k"]
    if depth > 10:
        return (0, {fn.txt(n): 1})
    cv = fn.const_val(n)
    if cv is not None:
        return (cv, {})
    x = unbox_operand(fn, n, True)
    if x is not None:
        return canon_boxed(cx, x[0], at, depth + 1, x[1])
    if k == "bin":
        o = nd["o"]
        if o in ("+", "-"):
            A, B = canon(cx, nd["c"][0], at, depth + 1), canon(cx, nd["c"][1], at, depth + 1)
            if o == "-" and (fn.type(n) or "").startswith("unsigned") and B[0] > 0 and not B[1] and A[1]:
                # `len - k` computed in an unsigned type wraps around when len < k: not a linear fact
                return (0, {fn.txt(n): 1})
            return add(A, B, 1 if o == "+" else -1)
        if o == "*":
            a = canon(cx, nd["c"][0], at, depth + 1)
            b = canon(cx, nd["c"][1], at, depth + 1)
            if not a[1]:
                return (a[0] * b[0], {t: c * a[0] for t, c in b[1].items() if c * a[0]})
            if not b[1]:
                return (a[0] * b[0], {t: c * b[0] for t, c in a[1].items() if c * b[0]})
        return (0, {fn.txt(n): 1})
    if k == "ref" and "d" in nd and nd["d"] not in fn.params:
        r = cx.reaching(nd["d"], at)
        if r is not None and (fn.type(n) or "") != SEXP_T:
            return canon(cx, r[1], r[2], depth + 1)
    if k == "mem" and nd.get("o") == "length":
        o2, path = fn.mempath(n)
        if len(path) == 3 and path[0] == "value" and path[1] in ("string", "bytes", "vector"):
            lf = alloc_len(cx, o2, path[1], at)
            if lf is not None:
                return lf
    return (0, {fn.txt(n): 1})


def alloc_len(cx, obj, kind, at):
    """length of a local object known from how it was made: the boxed length argument of the allocation
    wrapper that defines it, or the value stored into its length field earlier in this function"""
    fn = cx.fn
    o = fn.strip(obj)
    on = fn.nodes[o]
    if not (on["k"] == "ref" and "d" in on and on["d"] not in fn.params):
        return None
    r = cx.reaching(on["d"], at)
    if r is None:
        return None
    rhs = fn.strip(r[1])
    rn = fn.nodes[rhs]
    if rn["k"] == "call" and rn.get("o") in ALLOC_LEN and ALLOC_LEN[rn["o"]][1] == kind:
        k = ALLOC_LEN[rn["o"]][0]
        if k + 1 < len(rn["c"]):
            return canon_boxed(cx, rn["c"][k + 1], r[2], 0, "f")
    # a raw allocation followed by the store of the length field
    want = fn.txt(o) + LEN_FIELD[kind]
    stores = []
    for i, nd in enumerate(fn.nodes):
        if nd["k"] == "bin" and nd["o"] == "=" and fn.txt(fn.strip(nd["c"][0])) == want:
            stores.append(i)
    if len(stores) == 1:
        ps = enclosing_elem(fn, stores[0], cx.pos)
        if ps is not None and (ps[0] in cx.dom.get(at[0], ()) or (ps[0] == at[0] and ps[1] < at[1])) \
                and not cx.may_redefine(on["d"], ps, at):
            return canon(cx, fn.nodes[stores[0]]["c"][1], ps)
    return None


REL_NEG = {"<": ">=", "<=": ">", ">": "<=", ">=": "<"}


def logical_parent(fn, n):
    p = fn.parent(n)
    while p is not None and fn.nodes[p]["k"] in ("paren", "cast"):
        n, p = p, fn.parent(p)
    return n, p


def lift(fn, n, val, out, depth=0):
    """n evaluates to val: what enclosing !, &&, || nodes are decided by that alone"""
    if depth > 12:
        return
    c, p = logical_parent(fn, n)
    if p is None:
        return
    pn = fn.nodes[p]
    if pn["k"] == "un" and pn["o"] == "!":
        out.append((p, not val))
        lift(fn, p, not val, out, depth + 1)
    elif pn["k"] == "bin" and ((pn["o"] == "&&" and not val) or (pn["o"] == "||" and val)):
        out.append((p, val))
        lift(fn, p, val, out, depth + 1)


def edge_atoms2(fn, b, idx):
    """(node, polarity) pairs known when block b is left through successor #idx"""
    pol = idx == 0
    cond = fn.strip(b.cond)
    out = []
    if b.term in ("&&", "||"):
        # cond is the left operand of the operator that terminates the block
        out.extend(implied(fn, cond, pol))
        lift(fn, cond, pol, out)
        return out
    out.extend(implied(fn, cond, pol))
    # the block that ends a short-circuit chain evaluated only the last operand
    c = cond
    while fn.nodes[c]["k"] == "bin" and fn.nodes[c]["o"] in ("&&", "||"):
        c = fn.strip(fn.nodes[c]["c"][1])
        out.extend(implied(fn, c, pol))
    return out


def available(cx):
    """forward must-analysis: facts (atom node, polarity) that hold at the entry of each block on
    every path; a fact dies where a local it (or the definitions it was read through) mentions is written"""
    if cx.avail is not None:
        return cx.avail
    fn = cx.fn
    ids = {}
    facts = []

    def fid(a, pol, b):
        k = (a, pol)
        if k not in ids:
            ids[k] = len(facts)
            facts.append((a, pol, (b.id, len(b.elems))))
        return ids[k]

    # writes per block position
    writes = {}
    for vid in range(len(fn.vars)):
        for (_d, _r, pd) in cx.defs(vid):
            writes.setdefault(pd[0], []).append((pd[1], vid))
    # stores through pointers / to fields and slots: (block, index, text of the lvalue)
    memw = {}
    for i, nd in enumerate(fn.nodes):
        lv = None
        if nd["k"] == "bin" and nd["o"].endswith("=") and nd["o"] not in ("==", "!=", "<=", ">="):
            lv = fn.strip(nd["c"][0])
        elif nd["k"] == "un" and nd["o"] in ("pre++", "post++", "pre--", "post--"):
            lv = fn.strip(nd["c"][0])
        if lv is None or fn.nodes[lv]["k"] not in ("mem", "idx", "un"):
            continue
        pd = enclosing_elem(fn, i, cx.pos)
        if pd is not None:
            memw.setdefault(pd[0], []).append((pd[1], fn.txt(lv)))
    txt_cache = {}

    def ftxt(f):
        if f not in txt_cache:
            txt_cache[f] = fn.txt(facts[f][0])
        return txt_cache[f]
    deps_cache = {}

    def deps(f):
        if f not in deps_cache:
            a, pol, gpos = facts[f]
            d = set(v for v in fn.refs_in(a))
            # locals read through reaching definitions
            frontier = list(d)
            seen = set(d)
            while frontier:
                v = frontier.pop()
                if v in fn.params:
                    continue
                r = cx.reaching(v, gpos)
                if r is not None:
                    for w in fn.refs_in(r[1]):
                        if w not in seen:
                            seen.add(w)
                            frontier.append(w)
            deps_cache[f] = seen
        return deps_cache[f]

    def through(b, inset, upto=None):
        ws = [w for w in writes.get(b.id, ()) if upto is None or w[0] < upto]
        ms = [t for (i, t) in memw.get(b.id, ()) if upto is None or i < upto]
        if not ws and not ms:
            return inset
        killed = set(v for (_i, v) in ws)
        return frozenset(f for f in inset if not (deps(f) & killed) and not any(t in ftxt(f) for t in ms))

    order = fn.rpo()
    IN = {b: None for b in order}
    IN[fn.entry] = frozenset()
    edge_f = {}
    changed = True
    rounds = 0
    while changed and rounds < 40:
        changed = False
        rounds += 1
        for bid in order:
            b = fn.blocks[bid]
            if IN[bid] is None:
                continue
            out = through(b, IN[bid])
            for idx, s2 in enumerate(b.succs):
                if s2 is None or s2 < 0 or s2 not in IN:
                    continue
                o2 = out
                if b.cond is not None and len(b.succs) == 2 and b.term in BRANCHES:
                    key = (bid, idx)
                    if key not in edge_f:
                        edge_f[key] = frozenset(fid(a, pol, b) for (a, pol) in edge_atoms2(fn, b, idx)
                                                if fn.nodes[a]["k"] in ("bin", "un", "ref", "call"))
                    o2 = out | edge_f[key]
                new = o2 if IN[s2] is None else (IN[s2] & o2)
                if new != IN[s2]:
                    IN[s2] = new
                    changed = True
    cx.avail = (IN, facts, through)
    return cx.avail


BRANCHES = {"IfStmt", "WhileStmt", "ForStmt", "DoStmt", "&&", "||", "?:"}


def facts_at(cx, site_pos):
    IN, facts, through = available(cx)
    inset = IN.get(site_pos[0])
    if inset is None:
        return []
    live = through(cx.fn.blocks[site_pos[0]], inset, upto=site_pos[1])
    return [facts[f] for f in live]


def guard_facts(cx, site_pos):
    """[(E, strict, unsigned)]: facts  E > 0 (strict) / E >= 0  that hold at site_pos on every path,
    E a linear form canonicalised where the comparison was evaluated"""
    fn = cx.fn
    out = []
    for (a, pol, gpos) in facts_at(cx, site_pos):
        key = (a, pol)
        if key not in cx.lin:
            an = fn.nodes[a]
            r = None
            if an["k"] == "bin" and an["o"] in REL_NEG:
                o = an["o"] if pol else REL_NEG[an["o"]]
                l, rr = an["c"]
                both = None
                if (fn.type(fn.strip(l)) or "") == SEXP_T and (fn.type(fn.strip(rr)) or "") == SEXP_T:
                    # tagged words of one kind compare like the integers they carry
                    L, R = canon_boxed(cx, l, gpos, 0, "f"), canon_boxed(cx, rr, gpos, 0, "f")
                    both = (canon_boxed(cx, l, gpos, 0, "c"), canon_boxed(cx, rr, gpos, 0, "c"))
                else:
                    L, R = canon(cx, l, gpos), canon(cx, rr, gpos)
                if o in (">", ">="):
                    L, R = R, L
                    both = (both[1], both[0]) if both else None
                    o = "<" if o == ">" else "<="
                # long compared with unsigned long is compared as unsigned long
                uns = "unsigned long" in ((fn.type(l) or ""), (fn.type(rr) or ""))
                r = [(add(R, L, -1), o == "<", uns)]
                if uns and R[0] >= 0 and all(c > 0 and t.endswith(".length") for t, c in R[1].items()):
                    # compared as unsigned against a length: the smaller side is not negative
                    r.append((L, False, False))
                if both:
                    r.append((add(both[1], both[0], -1), o == "<", False))
            elif an["k"] == "call" and pol and an.get("o"):
                r = _predicate_facts(cx, a, gpos)
            cx.lin[key] = r
        if cx.lin[key]:
            out.extend(cx.lin[key])
    return out


def _predicate_facts(cx, call, gpos):
    """`if (!in_range_p(bv, i)) raise ...`: a one-return predicate of the same unit whose result is a conjunction of
    comparisons over its parameters (and lengths of its parameters) holds - each conjunct becomes a fact about the
    arguments"""
    fn = cx.fn
    nd = fn.nodes[call]
    g = fn.unit.functions.get(nd["o"])
    if g is None or not g.blocks or g is fn:
        return None
    rets = [g.strip(x["c"][0]) for x in g.nodes if x["k"] == "ret" and x.get("c")]
    if len(rets) != 1:
        return None
    conj = []

    def split(n, depth=0):
        n = g.strip(n)
        gn = g.nodes[n]
        if gn["k"] == "bin" and gn["o"] == "&&" and depth < 8:
            split(gn["c"][0], depth + 1)
            split(gn["c"][1], depth + 1)
        elif gn["k"] == "bin" and gn["o"] in REL_NEG:
            conj.append(n)
    split(rets[0])
    if not conj:
        return None
    args = nd["c"][1:]
    pnames = {g.vars[p]["n"]: k for k, p in enumerate(g.params)}
    cxg = Ctx(g)
    gat = (g.entry, 0)

    def translate(form):
        out = (form[0], {})
        for t, c in form[1].items():
            base = t.split("->")[0]
            if base not in pnames or pnames[base] >= len(args):
                return None
            a = args[pnames[base]]
            if t == base:
                m = canon(cx, a, gpos)
                if (fn.type(fn.strip(a)) or "") == SEXP_T:
                    return None
            else:
                m = (0, {fn.txt(fn.strip(a)) + t[len(base):]: 1})
            out = add(out, (m[0] * c, {k: v * c for k, v in m[1].items()}))
        return out
    facts = []
    for n in conj:
        gn = g.nodes[n]
        o = gn["o"]
        l, rr = gn["c"]
        L, R = canon(cxg, l, gat), canon(cxg, rr, gat)
        if o in (">", ">="):
            L, R = R, L
            o = "<" if o == ">" else "<="
        L2, R2 = translate(L), translate(R)
        if L2 is None or R2 is None:
            continue
        uns = "unsigned long" in ((g.type(l) or ""), (g.type(rr) or ""))
        facts.append((add(R2, L2, -1), o == "<", uns))
    return facts or None


def bounds(facts, ix, len_term):
    """(lower proven?, smallest k with  index <= length + k  proven or None).
    Facts are also combined pairwise (a <= b and b <= c), which covers `end < start || end > len`
    style range checks and loop conditions `i < end` with a checked `end`."""
    lower = False
    upper = None
    rel = set(ix[1]) | {len_term}
    fs = [f for f in facts if set(f[0][1]) & rel]
    combos = list(fs)
    for a in fs:
        for b in facts:
            if b is not a and set(b[0][1]) & set(a[0][1]):
                combos.append((add(a[0], b[0]), a[1] or b[1], False))
    neg_ix = (-ix[0], {t: -c for t, c in ix[1].items()})
    for (E, strict, uns) in combos:
        # lower:  E = ix + c
        d = add(E, ix, -1)
        if not d[1]:
            c = d[0]
            if (strict and c <= 1) or (not strict and c <= 0):
                lower = True
        # upper:  E = LEN - ix + c
        d = add(add(E, (0, {len_term: 1}), -1), neg_ix, -1)
        if not d[1]:
            c = d[0]
            k = c - 1 if strict else c
            upper = k if upper is None else min(upper, k)
            if uns and k <= 0:
                lower = True     # compared as unsigned: a negative index would be larger than any length
    return lower, upper


CORE_UNITS = ("sexp.c", "eval.c", "vm.c", "bignum.c", "opcodes.c", "gc.c", "simplify.c")

EXC_CTORS = ("sexp_user_exception", "sexp_type_exception", "sexp_xtype_exception", "sexp_range_exception",
             "sexp_make_exception", "sexp_user_exception_ls", "sexp_file_exception", "sexp_compile_error",
             "sexp_read_error")


def nonneg(cx, n, at, seen=None, depth=0):
    if _nonneg(cx, n, at, seen, depth):
        return True
    if n is None or n < 0 or depth > 6:
        return False
    # a comparison that holds where the expression is evaluated
    I = canon(cx, n, at)
    if not I[1]:
        return I[0] >= 0
    lower, _u = bounds(guard_facts(cx, at), I, "\0")
    return lower


def _nonneg(cx, n, at, seen=None, depth=0):
    """is the integer expression n provably >= 0?  (constants, unsigned length fields, sums and
    products of such, conditionals over such, unboxed non-negative boxed values, locals all of
    whose definitions are such - the local itself assumed non-negative inductively)"""
    fn = cx.fn
    seen = seen or frozenset()
    if n is None or n < 0 or depth > 14:
        return False
    n0 = n
    n = fn.strip(n)
    nd = fn.nodes[n]
    cv = fn.const_val(n)
    if cv is not None:
        return cv >= 0
    x = unbox_operand(fn, n)
    if x is not None:
        return boxed_nonneg(cx, x, at, seen, depth + 1)
    k = nd["k"]
    if k == "mem" and (fn.type(n) or "").startswith("unsigned"):
        return True
    if k == "idx" and (fn.type(n) or "") in ("unsigned char",):
        return True
    if k == "bin" and nd["o"] in ("+", "*", ">>", "/", "&"):
        if nd["o"] == "&" and (fn.const_val(nd["c"][1]) or -1) >= 0:
            return True
        return nonneg(cx, nd["c"][0], at, seen, depth + 1) and nonneg(cx, nd["c"][1], at, seen, depth + 1)
    if k == "cond":
        return nonneg(cx, nd["c"][1], at, seen, depth + 1) and nonneg(cx, nd["c"][2], at, seen, depth + 1)
    if k == "call" and nd.get("o"):
        callee = cx.prog.func(nd["o"], fn.unit) if getattr(cx, "prog", None) else None
        return int_fn_nonneg(cx.prog, callee) if callee is not None else False
    if k == "ref" and "d" in nd and nd["d"] not in fn.params:
        v = nd["d"]
        if v in seen:
            return True
        ds = cx.defs(v)
        if not ds:
            return False
        for (d, rhs, pd) in ds:
            dn = fn.nodes[d]
            if rhs is None:
                if dn["k"] == "un" and dn["o"] in ("pre++", "post++"):
                    continue
                if dn["k"] == "bin" and dn["o"] == "+=" and nonneg(cx, dn["c"][1], pd, seen | {v}, depth + 1):
                    continue
                return False
            if not nonneg(cx, rhs, pd, seen | {v}, depth + 1):
                return False
        return True
    return False


INT_NONNEG = {}


def int_fn_nonneg(prog, f):
    """every return statement of the integer function f returns a provably non-negative value"""
    if f is None or not f.blocks:
        return False
    key = (f.file, f.name)
    if key in INT_NONNEG:
        return INT_NONNEG[key]
    INT_NONNEG[key] = False
    cx = Ctx(f)
    cx.prog = prog
    n = 0
    ok = True
    for i, nd in enumerate(f.nodes):
        if nd["k"] == "ret" and nd.get("c"):
            at = enclosing_elem(f, i, cx.pos)
            if at is None or at[0] not in cx.reach:
                continue
            n += 1
            if not nonneg(cx, nd["c"][0], at):
                ok = False
                break
    INT_NONNEG[key] = ok and n > 0
    return INT_NONNEG[key]


def boxed_nonneg(cx, n, at, seen=None, depth=0):
    fn = cx.fn
    seen = seen or frozenset()
    if depth > 14:
        return False
    n = fn.strip(n)
    nd = fn.nodes[n]
    cv = fn.const_val(n)
    if cv is not None:
        return cv >= 0 and (cv & 3) != 0     # a non-negative immediate (fixnum / cursor), not a pointer constant
    inner = box_operand(fn, n)
    if inner is not None:
        return nonneg(cx, inner, at, seen, depth + 1)
    if nd["k"] == "ref" and "d" in nd and nd["d"] not in fn.params:
        v = nd["d"]
        if ("b", v) in seen:
            return True
        ds = cx.defs(v)
        if not ds:
            return False
        for (d, rhs, pd) in ds:
            if rhs is None or not boxed_nonneg(cx, rhs, pd, seen | {("b", v)}, depth + 1):
                return False
        return True
    return False


def flex_of(fn, n):
    """n (through parentheses / casts only) is (T*)((char*)X + const): the trailing data of X"""
    from kinds import flex_root
    for _ in range(6):
        nd = fn.nodes[n]
        if nd["k"] == "cast":
            x = flex_root(fn, n)
            if x is not None:
                return x
        if nd["k"] in ("cast", "paren") and nd.get("c"):
            n = nd["c"][0]
            continue
        break
    return None


def data_base(fn, n):
    """classify a data pointer expression: (kind, object node, length field path) or None"""
    m = fn.strip(n)
    nd = fn.nodes[m]
    # string: (bytes(X) + 16) + X->value.string.offset
    if nd["k"] == "bin" and nd["o"] == "+":
        b = fn.strip(nd["c"][1])
        bn = fn.nodes[b]
        if bn["k"] == "mem" and bn.get("o") == "offset":
            o2, path = fn.mempath(b)
            if path == ["value", "string", "offset"]:
                return ("string", o2)
    x = flex_of(fn, n)
    if x is not None:
        return ("flex", x)
    return None


LEN_FIELD = {"string": "->value.string.length", "vector": "->value.vector.length", "bytes": "->value.bytes.length"}


def param_index(fn, n):
    n = fn.strip(n)
    nd = fn.nodes[n]
    if nd["k"] == "ref" and nd.get("d") in fn.params:
        return fn.params.index(nd["d"])
    return None


def is_store_target(fn, i):
    """is node i (an lvalue) written: lhs of an assignment, operand of ++/--?"""
    p = fn.parent(i)
    c = i
    while p is not None and fn.nodes[p]["k"] in ("paren", "cast"):
        c, p = p, fn.parent(p)
    if p is None:
        return False
    pn = fn.nodes[p]
    if pn["k"] == "bin" and pn["o"].endswith("=") and pn["o"] not in ("==", "!=", "<=", ">=") and pn["c"][0] == c:
        return True
    if pn["k"] == "un" and pn["o"] in ("pre++", "post++", "pre--", "post--"):
        return True
    return False


def pointer_use(fn, i):
    """what happens to the pointer formed at node i: 'compare' (only compared), 'write' (stored
    through, directly or through the local it is assigned to), 'read'"""
    p = fn.parent(i)
    c = i
    while p is not None and fn.nodes[p]["k"] in ("paren", "cast"):
        c, p = p, fn.parent(p)
    if p is None:
        return "read"
    pn = fn.nodes[p]
    if pn["k"] == "bin" and pn["o"] in ("<", "<=", ">", ">=", "==", "!="):
        return "compare"
    if pn["k"] == "bin" and pn["o"] == "-" and not (fn.type(p) or "").endswith("*"):
        return "compare"          # pointer difference
    vid = None
    if pn["k"] == "decl":
        vid = pn.get("d")
    elif pn["k"] == "bin" and pn["o"] == "=" and pn["c"][1] == c:
        l = fn.strip(pn["c"][0])
        if fn.nodes[l]["k"] == "ref":
            vid = fn.nodes[l].get("d")
    if pn["k"] == "call" and pn.get("o") in EXTENT_CALLS:
        return "extent"       # only formed here; how far the callee goes from it is C01.k's obligation
    if pn["k"] == "un" and pn["o"] == "*" and is_store_target(fn, p):
        return "write"
    if pn["k"] == "call" and pn.get("o") in ("memcpy", "memmove", "memset", "strcpy", "strncpy", "__builtin_memcpy",
                                              "__builtin_memmove", "__builtin_memset") and pn["c"][1:2] == [c]:
        return "write"
    if vid is not None:
        for j, nd in enumerate(fn.nodes):
            # a pointer that is itself range-checked (p < end) is a cursor of a guarded loop: only its formation is judged
            if nd["k"] == "bin" and nd["o"] in ("<", "<=", ">", ">=") and vid in fn.refs_in(j) and \
                    any((fn.type(c) or "").endswith("*") for c in nd["c"]):
                return "read"
        for j, nd in enumerate(fn.nodes):
            if nd["k"] in ("un", "idx"):
                if nd["k"] == "un" and nd["o"] != "*":
                    continue
                b = fn.strip(nd["c"][0])
                bn = fn.nodes[b]
                root = None
                if bn["k"] == "ref":
                    root = bn.get("d")
                elif bn["k"] == "un" and bn["o"] in ("post++", "pre++", "post--", "pre--"):
                    bb = fn.strip(bn["c"][0])
                    root = fn.nodes[bb].get("d") if fn.nodes[bb]["k"] == "ref" else None
                if root == vid and is_store_target(fn, j):
                    return "write"
            if nd["k"] == "call" and nd.get("o") in ("memcpy", "memmove", "memset", "__builtin_memcpy", "__builtin_memmove"):
                a0 = fn.strip(nd["c"][1]) if len(nd["c"]) > 1 else None
                if a0 is not None and vid in fn.refs_in(a0):
                    return "write"
    return "read"


class Site:
    __slots__ = ("fn", "node", "kind", "obj", "objtxt", "ix", "I", "write", "via", "at", "lower", "upper", "ok", "ixtxt",
                 "formed")


def evaluate(cx, site):
    fn = cx.fn
    len_term = site.objtxt + LEN_FIELD[site.kind]
    facts = guard_facts(cx, site.at)
    lower, upper = bounds(facts, site.I, len_term)
    if not lower:
        # every term non-negative by construction
        if site.I[0] >= 0 and all(c > 0 for c in site.I[1].values()) and site.ix is not None and \
                (boxed_nonneg(cx, site.ix, site.at) if site.via else nonneg(cx, site.ix, site.at)):
            lower = True
    if not lower and site.ix is not None:
        lower = call_result_nonneg(cx, site)
    # string bytes are NUL-terminated (sexp_make_bytes_op allocates length+1): reading data[length] stays inside
    # the object; writes and the other containers need index < length
    need = 0 if ((site.kind == "string" and not site.write) or getattr(site, "formed", False)) else -1
    site.lower, site.upper = lower, upper
    site.ok = lower and upper is not None and upper <= need
    return site.ok


NONNEG_SUMMARY = {}


def returns_nonneg_cursor(prog, f):
    """every return of f is an exception constructor call or a boxed non-negative integer"""
    if f is None or not f.blocks:
        return False
    key = (f.file, f.name)
    if key in NONNEG_SUMMARY:
        return NONNEG_SUMMARY[key]
    NONNEG_SUMMARY[key] = False
    cx = Ctx(f)
    cx.prog = prog
    ok = True
    nret = 0
    for i, nd in enumerate(f.nodes):
        if nd["k"] != "ret" or not nd.get("c"):
            continue
        at = enclosing_elem(f, i, cx.pos)
        if at is None or at[0] not in cx.reach:
            continue
        nret += 1
        v = f.strip(nd["c"][0])
        vn = f.nodes[v]
        if vn["k"] == "call" and vn.get("o") in EXC_CTORS:
            continue
        if boxed_nonneg(cx, v, at):
            continue
        ok = False
        break
    NONNEG_SUMMARY[key] = ok and nret > 0
    return NONNEG_SUMMARY[key]


def call_result_nonneg(cx, site):
    """index = unbox(v), v a local whose reaching definition is a call to a function that returns
    an exception or a non-negative boxed integer, with the exception case excluded by an edge
    every path to the access takes"""
    fn = cx.fn
    x = site.ix if site.via else unbox_operand(fn, site.ix)
    if x is None:
        return False
    x = fn.strip(x)
    xn = fn.nodes[x]
    if xn["k"] != "ref" or "d" not in xn or xn["d"] in fn.params:
        return False
    r = cx.reaching(xn["d"], site.at)
    if r is None:
        return False
    rhs = fn.strip(r[1])
    rn = fn.nodes[rhs]
    if rn["k"] != "call" or not rn.get("o"):
        return False
    callee = cx.prog.func(rn["o"], fn.unit)
    if not returns_nonneg_cursor(cx.prog, callee):
        return False
    # !sexp_exceptionp(v) holds at the access
    for (a, pol, _g) in facts_at(cx, site.at):
        if not pol and "sexp_exceptionp" in (fn.macros(a) or ()) and xn["d"] in fn.refs_in(a) \
                and fn.nodes[a]["k"] == "bin" and fn.nodes[a]["o"] == "&&":
            return True
    return False


def tainted_locals(cx):
    """locals some definition of which reads the unboxed value of a boxed operand (or another such local)"""
    fn = cx.fn
    tl = set()

    def has_unbox(n):
        for x in fn.subtree(n):
            if fn.nodes[x]["k"] == "bin" and unbox_operand(fn, x) is not None:
                return True
        return False
    changed = True
    while changed:
        changed = False
        for vid in range(len(fn.vars)):
            if vid in tl or vid in fn.params:
                continue
            for (_d, rhs, _p) in cx.defs(vid):
                if rhs is not None and (has_unbox(rhs) or (fn.refs_in(rhs) & tl)):
                    tl.add(vid)
                    changed = True
                    break
    return tl


def direct_refs(fn, n):
    """locals read by n itself, not those that only name the object a field / slot is read from"""
    out = set()
    st = [n]
    while st:
        x = st.pop()
        nd = fn.nodes[x]
        if nd["k"] in ("mem", "idx", "call"):
            continue
        if nd["k"] == "ref" and "d" in nd:
            out.add(nd["d"])
        for c in nd.get("c", ()):
            if c is not None and c >= 0:
                st.append(c)
    return out


def direct_sites(cx):
    fn = cx.fn
    out = []
    tl = None
    for i, nd in enumerate(fn.nodes):
        base = ix = None
        ptr = False
        formed = False
        if nd["k"] == "idx":
            base, ix = nd["c"][0], nd["c"][1]
        elif nd["k"] == "bin" and nd["o"] == "+" and (fn.type(i) or "").endswith("*"):
            a, b = nd["c"]
            base, ix = (a, b) if (fn.type(a) or "").endswith("*") else (b, a)
            ptr = True
        if ix is None or fn.const_val(ix) is not None:
            continue
        db = data_base(fn, base)
        if db is None:
            continue
        kind, obj = db
        if kind == "flex":
            ety = fn.type(i) or ""
            if ptr:
                ety = ety[:-1].strip() if ety.endswith("*") else ""
                if ety == SEXP_T:
                    continue
            if ety == SEXP_T:
                kind = "vector"
            elif ety in ("char", "unsigned char", "signed char", "const char", "const unsigned char"):
                kind = "bytes"
            else:
                continue
        # the object is an operand: rooted at a parameter or at a VM stack slot
        root = fn.strip(obj)
        while fn.nodes[root]["k"] in ("mem", "idx", "un") and fn.nodes[root].get("c"):
            root = fn.strip(fn.nodes[root]["c"][0])
        rn = fn.nodes[root]
        if not (rn["k"] == "ref" and (rn.get("d") in fn.params or (fn.name == "sexp_apply" and rn.get("o") == "stack"))):
            continue
        at = enclosing_elem(fn, i, cx.pos)
        if at is None or at[0] not in cx.reach:
            continue
        write = False
        if ptr:
            use = pointer_use(fn, i)
            if use == "compare":
                continue
            write = use == "write"
            formed = use == "extent"
        else:
            write = is_store_target(fn, i)
        I = canon(cx, ix, at)
        if not any(t[:3] in ("Uf(", "Uc(") for t in I[1]):
            if tl is None:
                tl = tainted_locals(cx)
            if not (direct_refs(fn, ix) & tl):
                continue
        st = Site()
        st.fn, st.node, st.kind, st.obj, st.objtxt, st.ix, st.I, st.write, st.via, st.at = \
            fn, i, kind, obj, fn.txt(obj), ix, I, write, None, at
        st.ixtxt = fn.txt(ix)
        st.formed = formed
        out.append(st)
    return out


def run(prog, res, floor=20, prop="C01", rule="C01.i", advisory_filter=None, prims=None):
    stat = res.stat(rule, "program-supplied indexes into string / bytevector / vector data: 0 <= index < length of the "
                    "same object (<= for reads of NUL-terminated string bytes) is implied by the branch edges every path to "
                    "the access takes; unguarded helper accesses become obligations of their call sites", floor=floor)
    stat.all_sites = []
    NONNEG_SUMMARY.clear()
    INT_NONNEG.clear()
    prim_of = {}
    for (f, sname, origin) in (prims or []):
        prim_of[(f.file, f.name)] = (sname, origin)
    ctxs = {}

    def ctx_of(fn):
        k = (fn.file, fn.name)
        if k not in ctxs:
            ctxs[k] = Ctx(fn)
            ctxs[k].prog = prog
        return ctxs[k]

    summaries = {}      # (file, name) -> [(obj param idx, index param idx, const, kind, write)]
    pending = []
    funcs = [f for f in prog.all_funcs() if f.blocks]
    for fn in funcs:
        has = False
        for nd in fn.nodes:
            if nd["k"] == "idx" or (nd["k"] == "bin" and nd["o"] == "+"):
                has = True
                break
        if not has:
            continue
        cx = ctx_of(fn)
        for st in direct_sites(cx):
            pending.append(st)
    reported = []
    rounds = 0
    while pending and rounds < 4:
        rounds += 1
        new_summ = {}
        for st in pending:
            cx = ctx_of(st.fn)
            if evaluate(cx, st):
                reported.append(st)
                continue
            fn = st.fn
            key = (fn.file, fn.name)
            po = param_index(fn, st.obj)
            terms = list(st.I[1].items())
            pi = None
            ukind = None
            if len(terms) == 1 and terms[0][1] == 1 and terms[0][0][:3] in ("Uf(", "Uc("):
                nm = terms[0][0][3:-1]
                ukind = terms[0][0][1]
                for k2, vid in enumerate(fn.params):
                    if fn.vars[vid]["n"] == nm and fn.var_type(vid) == SEXP_T:
                        pi = k2
            if po is not None and pi is not None and key not in prim_of and fn.name != "sexp_apply":
                new_summ.setdefault(key, []).append((po, pi, st.I[0], st.kind, st.write, ukind))
                st.ok = None       # moved to the callers
                reported.append(st)
            else:
                reported.append(st)
        pending = []
        fresh = {k: v for k, v in new_summ.items() if k not in summaries}
        summaries.update(fresh)
        if not fresh:
            break
        for fn in funcs:
            cx = None
            for i, nd in enumerate(fn.nodes):
                if nd["k"] != "call" or not nd.get("o"):
                    continue
                callee = prog.func(nd["o"], fn.unit)
                if callee is None or (callee.file, callee.name) not in fresh:
                    continue
                cx = cx or ctx_of(fn)
                args = nd["c"][1:]
                at = enclosing_elem(fn, i, cx.pos)
                if at is None or at[0] not in cx.reach:
                    continue
                seen = set()
                for (po, pi, c0, kind, write, ukind) in fresh[(callee.file, callee.name)]:
                    if po >= len(args) or pi >= len(args) or (po, pi, kind) in seen:
                        continue
                    seen.add((po, pi, kind))
                    st = Site()
                    st.fn, st.node, st.kind, st.obj, st.objtxt, st.ix = fn, i, kind, args[po], fn.txt(fn.strip(args[po])), args[pi]
                    I = canon_boxed(cx, args[pi], at, 0, ukind)
                    st.I = (I[0] + c0, I[1])
                    st.write, st.via, st.at = write, callee.name, at
                    st.formed = False
                    st.ixtxt = fn.txt(args[pi])
                    pending.append(st)
    for st in reported:
        fn = st.fn
        stat.sites += 1
        if st.ok is None:
            continue
        stat.obligations += 1
        disc = "%s data of %s at %s%s" % (st.kind, st.objtxt, st.ixtxt[:40], (" via " + st.via) if st.via else "")
        if st.ok:
            stat.discharged += 1
            stat.all_sites.append((fn.where(st.node), fn.name, disc))
            stat.sample({"site": fn.where(st.node), "function": fn.name, "access": disc})
            continue
        key = (fn.file, fn.name)
        adv = False
        if advisory_filter is not None and fn.name != "sexp_apply":
            if key in prim_of:
                adv = bool(advisory_filter(fn, prim_of[key][0], prim_of[key][1]))
            else:
                adv = fn.unit.name not in CORE_UNITS
        if "context.globals" in st.objtxt or "context.specific" in st.objtxt:
            # tables hung off the context are bounded by their own counters (num_types, SEXP_MAX_SIGNUM,
            # the bytecode position), not by the vector length: reported for reading, never a violation
            adv = True
        rel = "<=" if (st.kind == "string" and not st.write) else "<"
        res.add(Finding(prop, rule + ".unguarded-index", fn.name, disc, fn.where(st.node),
                        "%s: index %s into the %s data of %s%s: required 0 <= index %s %s%s; the branch edges every path "
                        "takes give: %s%s" % (fn.name, st.ixtxt[:60], st.kind, st.objtxt,
                                              (" (access performed by %s)" % st.via) if st.via else "", rel,
                                              st.objtxt, LEN_FIELD[st.kind],
                                              "0 <= index" if st.lower else "no lower bound",
                                              (", index <= length%+d" % st.upper) if st.upper is not None
                                              else ", no upper bound against that length"),
                        unit=fn.unit.display, advisory=adv))
    return stat


# ---------------------------------------------------------------------------------------------
# C01.j - string views: whoever writes a string's (bytes, offset, length) triple keeps it inside
# the bytes object.  The length fields are "the only information bounds checks can rely on".

def _field_store(fn, i):
    """assignment node i stores to X->value.string.{bytes,offset,length}: (X node, field, rhs, compound)"""
    nd = fn.nodes[i]
    if nd["k"] != "bin" or not nd["o"].endswith("=") or nd["o"] in ("==", "!=", "<=", ">="):
        return None
    l = fn.strip(nd["c"][0])
    if fn.nodes[l]["k"] != "mem":
        return None
    o2, path = fn.mempath(l)
    if len(path) == 3 and path[:2] == ["value", "string"] and path[2] in ("bytes", "offset", "length"):
        return (o2, path[2], nd["c"][1], nd["o"] != "=")
    return None


def _subst(form, mapping):
    """replace parameter-name terms of a linear form by the caller's forms; None if a term is not a parameter"""
    out = (form[0], {})
    for t, c in form[1].items():
        if t not in mapping:
            return None
        m = mapping[t]
        out = add(out, (m[0] * c, {k: v * c for k, v in m[1].items()}))
    return out


def _view_ok(cx, at, btxt, O, L):
    """[] if 0 <= O, 0 <= L and O + L <= length(bytes) hold at `at`, else the list of missing clauses"""
    facts = guard_facts(cx, at)
    len_term = btxt + "->value.bytes.length"
    missing = []

    def lower(F):
        if not F[1]:
            return F[0] >= 0
        if F == (0, {len_term: 1}):
            return True
        return bounds(facts, F, "\0")[0]
    if not lower(O):
        missing.append("0 <= offset")
    if not lower(L):
        missing.append("0 <= length")
    S = add(O, L)
    d = add(S, (0, {len_term: 1}), -1)
    if not (not d[1] and d[0] <= 0):
        up = bounds(facts, S, len_term)[1]
        if up is None or up > 0:
            missing.append("offset + length <= bytevector-length of the bytes")
    return missing


def run_views(prog, res, floor=4, prop="C01", rule="C01.j", advisory_filter=None, prims=None):
    stat = res.stat(rule, "writers of a string's (bytes, offset, length): 0 <= offset, 0 <= length and offset + length <= "
                    "length of the bytes object hold where the fields are stored (or at every call site when the writer "
                    "stores its own integer parameters)", floor=floor)
    prim_of = {(f.file, f.name): (s, o) for (f, s, o) in (prims or [])}
    summaries = {}
    work = []
    for fn in prog.all_funcs():
        if not fn.blocks:
            continue
        groups = {}
        for i, nd in enumerate(fn.nodes):
            if nd["k"] != "bin":
                continue
            fs = _field_store(fn, i)
            if fs is None:
                continue
            groups.setdefault(fn.txt(fs[0]), {}).setdefault(fs[1], []).append((i,) + fs)
        for xtxt, g in groups.items():
            if "length" not in g and "offset" not in g:
                continue
            work.append((fn, xtxt, g))
    pending_calls = []
    for (fn, xtxt, g) in work:
        cx = Ctx(fn)
        cx.prog = prog
        stat.sites += 1
        stat.obligations += 1
        disc = "string view %s" % xtxt
        stores = g.get("length", []) + g.get("offset", [])
        last = max(stores, key=lambda s: fn.line(s[0]))
        at = enclosing_elem(fn, last[0], cx.pos)
        if any(s[4] for s in stores):
            res.add(Finding(prop, rule + ".view-update", fn.name, disc, fn.where(last[0]),
                            "%s adjusts the length/offset of %s in place (compound assignment): the rule cannot relate the new "
                            "value to the bytes object" % (fn.name, xtxt), unit=fn.unit.display))
            continue
        if at is None or len(g.get("length", [])) != 1 or len(g.get("offset", [])) > 1 or len(g.get("bytes", [])) > 1:
            res.add(Finding(prop, rule + ".view-shape", fn.name, disc, fn.where(last[0]),
                            "%s stores the string fields of %s more than once or without its length" % (fn.name, xtxt),
                            unit=fn.unit.display))
            continue
        Ls = g["length"][0]
        Os = g.get("offset", [None])[0]
        Bs = g.get("bytes", [None])[0]
        # copy of another string's triple
        def src_of(s, field):
            if s is None:
                return None
            r = fn.strip(s[3])
            if fn.nodes[r]["k"] == "mem":
                o2, path = fn.mempath(r)
                if path == ["value", "string", field]:
                    return fn.txt(o2)
            return None
        srcs = {src_of(Ls, "length"), src_of(Os, "offset"), src_of(Bs, "bytes")}
        if len(srcs) == 1 and None not in srcs:
            stat.discharged += 1
            stat.sample({"site": fn.where(Ls[0]), "function": fn.name, "how": "copies the triple of " + srcs.pop()})
            continue
        if Bs is None:
            res.add(Finding(prop, rule + ".view-shape", fn.name, disc, fn.where(Ls[0]),
                            "%s stores the length of %s without storing its bytes: the rule cannot tell which bytes object "
                            "bounds it" % (fn.name, xtxt), unit=fn.unit.display))
            continue
        btxt = fn.txt(fn.strip(Bs[3]))
        O = canon(cx, Os[3], at) if Os is not None else (0, {})
        L = canon(cx, Ls[3], at)
        missing = _view_ok(cx, at, btxt, O, L)
        if not missing:
            stat.discharged += 1
            stat.sample({"site": fn.where(Ls[0]), "function": fn.name, "how": "offset %s, length %s within %s" % (O, L, btxt)})
            continue
        # the writer stores its own parameters: the obligation moves to its callers
        pnames = {fn.vars[v]["n"]: k for k, v in enumerate(fn.params)}
        terms = set(O[1]) | set(L[1])
        key = (fn.file, fn.name)
        if btxt in pnames and terms and terms <= set(pnames) and key not in prim_of:
            summaries[key] = (pnames[btxt], O, L, pnames)
            stat.obligations -= 1
            continue
        res.add(Finding(prop, rule + ".view-out-of-bytes", fn.name, disc, fn.where(Ls[0]),
                        "%s makes %s a view of %s with offset %s and length %s; not established: %s" %
                        (fn.name, xtxt, btxt, fn.txt(Os[3]) if Os else "0", fn.txt(Ls[3]), "; ".join(missing)),
                        unit=fn.unit.display))
    for rnd in range(3):
        if not summaries:
            break
        fresh = dict(summaries)
        summaries = {}
        for fn in prog.all_funcs():
            if not fn.blocks:
                continue
            cx = None
            for i, nd in enumerate(fn.nodes):
                if nd["k"] != "call" or not nd.get("o"):
                    continue
                callee = prog.func(nd["o"], fn.unit)
                if callee is None or (callee.file, callee.name) not in fresh:
                    continue
                if cx is None:
                    cx = Ctx(fn)
                    cx.prog = prog
                at = enclosing_elem(fn, i, cx.pos)
                if at is None or at[0] not in cx.reach:
                    continue
                bpi, O, L, pnames = fresh[(callee.file, callee.name)]
                args = nd["c"][1:]
                if bpi >= len(args):
                    continue
                stat.sites += 1
                stat.obligations += 1
                mapping = {}
                for nm, k in pnames.items():
                    if k < len(args):
                        mapping[nm] = canon(cx, args[k], at)
                O2, L2 = _subst(O, mapping), _subst(L, mapping)
                btxt = fn.txt(fn.strip(args[bpi]))
                disc = "string view over %s via %s" % (btxt, callee.name)
                missing = ["arguments the rule cannot read"] if O2 is None or L2 is None else _view_ok(cx, at, btxt, O2, L2)
                if not missing:
                    stat.discharged += 1
                    stat.sample({"site": fn.where(i), "function": fn.name, "how": "offset %s, length %s within %s (stored by %s)"
                                 % (O2, L2, btxt, callee.name)})
                    continue
                key = (fn.file, fn.name)
                adv = False
                if advisory_filter is not None and key in prim_of:
                    adv = bool(advisory_filter(fn, prim_of[key][0], prim_of[key][1]))
                res.add(Finding(prop, rule + ".view-out-of-bytes", fn.name, disc, fn.where(i),
                                "%s passes %s to %s, which makes a string that views the bytes of %s at that offset and "
                                "length; not established at the call: %s" %
                                (fn.name, ", ".join(fn.txt(a)[:30] for a in args[1:]), callee.name, btxt, "; ".join(missing)),
                                unit=fn.unit.display, advisory=adv))
    return stat


def witnesses(prog, res):
    """tiny positive/negative examples analysed with the same rules on every run"""
    import os
    import extract
    import report
    path = os.path.join(extract.VERIF, "selftest", "witness", "c01i.c")
    wp = extract.load_program(prog.config, only={"<none>"}, extra_sources=[(path, [])])
    tmp = report.Result("C01", "quick")
    prims = [(f, name, "witness") for name, f in wp.units[0].functions.items()
             if name.startswith("witness_bad_") or name.startswith("witness_ok_")]
    run(wp, tmp, floor=0, prims=prims)
    run_views(wp, tmp, floor=0, prims=prims)
    run_extents(wp, tmp, floor=0, prims=prims)
    flagged = {f.function for f in tmp.findings + tmp.advisories}
    n = 0
    for name in sorted(wp.units[0].functions):
        if name.startswith("witness_bad_"):
            n += 1
            res.witness.append((name, name in flagged))
        elif name.startswith("witness_ok_"):
            n += 1
            res.witness.append((name, name not in flagged))
    if n < 17:
        res.broken.append("C01.i witness file yielded only %d functions" % n)


# ---------------------------------------------------------------------------------------------
# C01.k - extents: a (pointer into an operand's data, byte count) pair handed to a copying /
# writing routine stays inside the object when the count or the offset is program-supplied.

def prove_nonneg(facts, D):
    """D >= 0 follows from one fact or the sum of two"""
    if not D[1]:
        return D[0] >= 0
    if D[0] >= 0 and all(c > 0 and t.endswith(".length") for t, c in D[1].items()):
        return True          # length fields are unsigned
    rel = set(D[1])
    fs = [f for f in facts if set(f[0][1]) & rel]
    combos = list(fs)
    for a in fs:
        for b in facts:
            if b is not a and set(b[0][1]) & set(a[0][1]):
                combos.append((add(a[0], b[0]), a[1] or b[1], False))
    for (E, strict, _u) in combos:
        d = add(D, E, -1)
        if not d[1] and d[0] >= (-1 if strict else 0):
            return True
    return False


EXTENT_CALLS = {
    # name: (pointer argument positions, count expression builder)
    "memcpy": ((0, 1), (2,)), "__builtin_memcpy": ((0, 1), (2,)), "memmove": ((0, 1), (2,)),
    "__builtin_memmove": ((0, 1), (2,)), "memset": ((0,), (2,)), "__builtin_memset": ((0,), (2,)),
    "memcmp": ((0, 1), (2,)), "strncmp": ((0, 1), (2,)), "strncpy": ((0, 1), (2,)),
    "fwrite": ((0,), (1, 2)), "fread": ((0,), (1, 2)), "write": ((1,), (2,)), "read": ((1,), (2,)),
}

ALLOC_LEN = {   # allocation wrappers whose result has the given boxed argument as its length field
    "sexp_make_string_op": (3, "string"), "sexp_make_bytes_op": (3, "bytes"), "sexp_make_vector_op": (3, "vector"),
}


def len_form(cx, obj, kind, at):
    """linear form of the length of object expression `obj`"""
    fn = cx.fn
    lf = alloc_len(cx, obj, kind, at)
    if lf is not None:
        return lf
    return (0, {fn.txt(fn.strip(obj)) + LEN_FIELD[kind]: 1})


def pointer_parts(cx, p, at, depth=0):
    """p = data(X) [+ off]  ->  (kind, X node, off form)  (following one local pointer definition)"""
    fn = cx.fn
    q = fn.strip(p)
    qn = fn.nodes[q]
    db = data_base(fn, p)
    if db is not None and db[0] == "string":
        return ("string", db[1], (0, {}))
    if db is not None and db[0] == "flex":
        ety = (fn.type(p) or fn.type(q) or "")
        ety = ety[:-1].strip() if ety.endswith("*") else ety
        kind = "vector" if ety == SEXP_T else "bytes"
        return (kind, db[1], (0, {}))
    if qn["k"] == "bin" and qn["o"] == "+":
        a, b = qn["c"]
        base, off = (a, b) if (fn.type(a) or "").endswith("*") else (b, a)
        inner = pointer_parts(cx, base, at, depth + 1)
        if inner is not None:
            return (inner[0], inner[1], add(inner[2], canon(cx, off, at)))
    if qn["k"] == "ref" and "d" in qn and qn["d"] not in fn.params and depth < 2 and (fn.type(q) or "").endswith("*"):
        r = cx.reaching(qn["d"], at)
        if r is not None:
            return pointer_parts(cx, r[1], r[2], depth + 1)
    return None


def run_extents(prog, res, floor=3, prop="C01", rule="C01.k", advisory_filter=None, prims=None):
    stat = res.stat(rule, "(pointer into an operand's data, count) pairs given to memcpy / memset / fwrite / strncmp ...: "
                    "0 <= offset, 0 <= count and offset + count <= length of that object are implied by the comparisons "
                    "that hold on every path, when offset or count is program-supplied", floor=floor)
    prim_of = {(f.file, f.name): (s, o) for (f, s, o) in (prims or [])}
    for fn in prog.all_funcs():
        if not fn.blocks:
            continue
        # entry points only: inside a helper the bounds of its parameters are its callers' business (C01.i moves
        # the index obligations there; extents are not summarised)
        if (fn.file, fn.name) not in prim_of and fn.name != "sexp_apply":
            continue
        cx = None
        tl = None
        for i, nd in enumerate(fn.nodes):
            if nd["k"] != "call" or nd.get("o") not in EXTENT_CALLS:
                continue
            ptrs, cnt = EXTENT_CALLS[nd["o"]]
            args = nd["c"][1:]
            if max(ptrs + cnt) >= len(args):
                continue
            if cx is None:
                cx = Ctx(fn)
                cx.prog = prog
            at = enclosing_elem(fn, i, cx.pos)
            if at is None or at[0] not in cx.reach:
                continue
            N = canon(cx, args[cnt[0]], at)
            if len(cnt) == 2:
                a, b = N, canon(cx, args[cnt[1]], at)
                if not a[1]:
                    N = (a[0] * b[0], {t: c * a[0] for t, c in b[1].items()})
                elif not b[1]:
                    N = (a[0] * b[0], {t: c * b[0] for t, c in a[1].items()})
                else:
                    continue
            for pi in ptrs:
                pp = pointer_parts(cx, args[pi], at)
                if pp is None:
                    continue
                kind, obj, off = pp
                root = fn.strip(obj)
                while fn.nodes[root]["k"] in ("mem", "idx", "un") and fn.nodes[root].get("c"):
                    root = fn.strip(fn.nodes[root]["c"][0])
                rn = fn.nodes[root]
                if rn["k"] != "ref":
                    continue
                L = len_form(cx, obj, kind, at)
                elem = 8 if kind == "vector" else 1
                if elem != 1:
                    L = (L[0] * elem, {t: c * elem for t, c in L[1].items()})
                S = add(off, N)
                prog_supplied = any(t[:3] in ("Uf(", "Uc(") for t in S[1])
                if not prog_supplied:
                    if tl is None:
                        tl = tainted_locals(cx)
                    for a in (args[cnt[0]], args[pi]):
                        if any(not (fn.var_type(v) or "").endswith("*") for v in direct_refs(fn, a) & tl):
                            prog_supplied = True
                if not prog_supplied:
                    continue
                stat.sites += 1
                stat.obligations += 1
                facts = guard_facts(cx, at)
                missing = []
                if not (prove_nonneg(facts, off) or (not off[1] and off[0] >= 0)):
                    missing.append("0 <= offset")
                if not prove_nonneg(facts, N):
                    missing.append("0 <= count")
                if not prove_nonneg(facts, add(L, S, -1)):
                    missing.append("offset + count <= length")
                disc = "%s(%s data of %s, count %s)" % (nd["o"], kind, fn.txt(fn.strip(obj))[:40], fn.txt(args[cnt[-1]])[:40])
                if not missing:
                    stat.discharged += 1
                    stat.sample({"site": fn.where(i), "function": fn.name, "access": disc})
                    continue
                key = (fn.file, fn.name)
                adv = False
                if advisory_filter is not None and fn.name != "sexp_apply":
                    if key in prim_of:
                        adv = bool(advisory_filter(fn, prim_of[key][0], prim_of[key][1]))
                    else:
                        adv = fn.unit.name not in CORE_UNITS
                res.add(Finding(prop, rule + ".unbounded-extent", fn.name, disc, fn.where(i),
                                "%s: %s touches %s bytes at offset %s of the %s data of %s (length %s); not established on "
                                "every path: %s" % (fn.name, nd["o"], N, off, kind, fn.txt(fn.strip(obj))[:50], L, "; ".join(missing)),
                                unit=fn.unit.display, advisory=adv))
    return stat


# ---------------------------------------------------------------------------------------------
# C01.m - allocation sizes: a size computed from a program-supplied count cannot wrap around.

ALLOCATORS = {"sexp_alloc_tagged_aux": 1, "sexp_alloc": 1, "malloc": 0, "calloc": 1, "realloc": 1, "sexp_alloc_bytecode": 1}
FIXNUM_MAX = (1 << 62) - 1


def run_alloc(prog, res, floor=2, prop="C01", rule="C01.m", advisory_filter=None, prims=None):
    stat = res.stat(rule, "allocation sizes of the form c0 + c1*count with a program-supplied count: the largest count the "
                    "dominating comparisons admit (at most the fixnum range) keeps the size below 2^63 - a wrapped size "
                    "allocates a small object that the initialising loop then overruns", floor=floor)
    prim_of = {(f.file, f.name): (s, o) for (f, s, o) in (prims or [])}
    for fn in prog.all_funcs():
        if not fn.blocks:
            continue
        cx = None
        for i, nd in enumerate(fn.nodes):
            if nd["k"] != "call" or nd.get("o") not in ALLOCATORS:
                continue
            args = nd["c"][1:]
            k = ALLOCATORS[nd["o"]]
            if k >= len(args) or fn.const_val(args[k]) is not None:
                continue
            if cx is None:
                cx = Ctx(fn)
                cx.prog = prog
            at = enclosing_elem(fn, i, cx.pos)
            if at is None or at[0] not in cx.reach:
                continue
            S = canon(cx, args[k], at)
            uterms = [t for t in S[1] if t[:3] in ("Uf(", "Uc(")]
            if not uterms or len(S[1]) != 1:
                continue
            u = uterms[0]
            c1 = S[1][u]
            stat.sites += 1
            stat.obligations += 1
            # largest admitted count: a fact  K - u >= 0  (or > 0) with constant K
            K = FIXNUM_MAX
            for (E, strict, _uns) in guard_facts(cx, at):
                if set(E[1]) == {u} and E[1][u] == -1:
                    kk = E[0] - 1 if strict else E[0]
                    K = min(K, kk)
            worst = S[0] + c1 * K
            disc = "%s(%s)" % (nd["o"], fn.txt(args[k])[:50])
            if c1 > 0 and worst < (1 << 63):
                stat.discharged += 1
                stat.sample({"site": fn.where(i), "function": fn.name, "size": "%d + %d*count" % (S[0], c1), "count <=": K})
                continue
            key = (fn.file, fn.name)
            adv = False
            if advisory_filter is not None and key in prim_of:
                adv = bool(advisory_filter(fn, prim_of[key][0], prim_of[key][1]))
            elif advisory_filter is not None:
                adv = fn.unit.name not in CORE_UNITS
            res.add(Finding(prop, rule + ".size-may-wrap", fn.name, disc, fn.where(i),
                            "%s allocates %d + %d*count bytes where count is program-supplied and the comparisons that hold here "
                            "admit counts up to %d: the size wraps around 2^64 (%d + %d*%d), a small object is allocated and the "
                            "code that initialises `count` elements writes far past it" %
                            (fn.name, S[0], c1, K, S[0], c1, K), unit=fn.unit.display, advisory=adv))
    # computed boxed lengths handed to the allocation wrappers: box(count * k) must not wrap the fixnum range
    from rules.bufbudget import max_return
    from cfg import local_defs
    for fn in prog.all_funcs():
        if not fn.blocks:
            continue
        cx = None
        for i, nd in enumerate(fn.nodes):
            if nd["k"] != "call" or nd.get("o") not in ALLOC_LEN:
                continue
            k = ALLOC_LEN[nd["o"]][0]
            args = nd["c"][1:]
            if k >= len(args):
                continue
            if cx is None:
                cx = Ctx(fn)
                cx.prog = prog
            at = enclosing_elem(fn, i, cx.pos)
            if at is None or at[0] not in cx.reach:
                continue
            inner = box_operand(fn, args[k], True)
            e = None
            if inner is not None and inner[1] == "f":
                e = fn.strip(inner[0])
                en = fn.nodes[e]
                if en["k"] == "ref" and "d" in en and en["d"] not in fn.params:
                    # a local that holds the computed size: look into its definition for the product
                    r0 = cx.reaching(en["d"], at)
                    if r0 is not None:
                        for y in fn.subtree(r0[1]):
                            if fn.nodes[y]["k"] == "bin" and fn.nodes[y]["o"] == "*":
                                e = y
                                en = fn.nodes[y]
                                break
                if en["k"] != "bin" or en["o"] != "*":
                    continue
                fa, fb = canon(cx, en["c"][0], at), canon(cx, en["c"][1], at)
                other_node = None
            else:
                # sexp_fx_mul(a, b) = ((a - 1) * (b >> 1)) + 1 : arithmetic on the tagged words, i.e. box(unbox(a) * unbox(b))
                t = fn.strip(args[k])
                tn = fn.nodes[t]
                if not (tn["k"] == "bin" and tn["o"] == "+" and fn.const_val(tn["c"][1]) == 1):
                    continue
                m = fn.strip(tn["c"][0])
                mn = fn.nodes[m]
                if not (mn["k"] == "bin" and mn["o"] == "*"):
                    continue
                x = fn.strip(mn["c"][0])
                xn = fn.nodes[x]
                if not (xn["k"] == "bin" and xn["o"] == "-" and fn.const_val(xn["c"][1]) == 1):
                    continue
                e = m
                en = mn
                fa = canon_boxed(cx, xn["c"][0], at, 0, "f")
                y = fn.strip(mn["c"][1])
                yn = fn.nodes[y]
                if yn["k"] == "bin" and yn["o"] == ">>" and fn.const_val(yn["c"][1]) == 1:
                    fb = canon_boxed(cx, yn["c"][0], at, 0, "f")
                    bo = box_operand(fn, yn["c"][0])
                    other_node = bo if bo is not None else y
                else:
                    fb = canon(cx, y, at)
                    other_node = y
            us = [f for f in (fa, fb) if len(f[1]) == 1 and list(f[1])[0][:3] in ("Uf(", "Uc(") and f[0] == 0]
            if len(us) != 1:
                continue
            u = list(us[0][1])[0]
            other = en["c"][1] if us[0] is fa else en["c"][0]
            if other_node is not None and us[0] is fa:
                other = other_node
            stat.sites += 1
            stat.obligations += 1
            # largest value of the other factor
            ov = fn.const_val(other)
            if ov is None:
                # an element of a constant table: its largest initializer
                o1 = fn.strip(other)
                if fn.nodes[o1]["k"] == "idx":
                    base = fn.strip(fn.nodes[o1]["c"][0])
                    if fn.nodes[base]["k"] == "ref" and fn.nodes[base].get("dk") == "g":
                        for g in fn.unit.globals:
                            if g.name == fn.nodes[base].get("o") and g.const and g.init_root is not None:
                                vals = [g.const_val(x) for x in g.subtree(g.init_root) if g.nodes[x]["k"] in ("int", "const")]
                                vals = [v for v in vals if v is not None]
                                if vals:
                                    ov = max(vals)
            if ov is None:
                o0 = fn.strip(other)
                if fn.nodes[o0]["k"] == "ref" and "d" in fn.nodes[o0]:
                    best = None
                    for (_d, rhs) in local_defs(fn, fn.nodes[o0]["d"]):
                        rr = fn.strip(rhs) if rhs is not None else None
                        if rr is not None and fn.nodes[rr]["k"] == "call" and fn.nodes[rr].get("o"):
                            m = max_return(prog, fn, fn.nodes[rr]["o"])
                            best = None if m is None else (m if best is None else max(best, m))
                            if m is None:
                                break
                        elif rr is not None and fn.const_val(rr) is not None:
                            best = fn.const_val(rr) if best is None else max(best, fn.const_val(rr))
                        else:
                            best = None
                            break
                    ov = best
            K = FIXNUM_MAX
            for (E, strict, _uns) in guard_facts(cx, at):
                if set(E[1]) == {u} and E[1][u] == -1:
                    K = min(K, E[0] - 1 if strict else E[0])
            disc = "%s(%s)" % (nd["o"], fn.txt(e)[:50])
            if ov is not None and ov > 0 and K * ov <= FIXNUM_MAX:
                stat.discharged += 1
                stat.sample({"site": fn.where(i), "function": fn.name, "length": "count * %d" % ov, "count <=": K})
                continue
            key = (fn.file, fn.name)
            adv = False
            if advisory_filter is not None and key in prim_of:
                adv = bool(advisory_filter(fn, prim_of[key][0], prim_of[key][1]))
            elif advisory_filter is not None:
                adv = fn.unit.name not in CORE_UNITS
            res.add(Finding(prop, rule + ".length-may-wrap", fn.name, disc, fn.where(i),
                            "%s hands %s the boxed product %s as a length: the count is program-supplied (up to %d here), the "
                            "other factor up to %s, and the product is boxed unchecked, so it can wrap to a small length - a "
                            "small object is allocated and the loop that fills `count` elements overruns it" %
                            (fn.name, nd["o"], fn.txt(e)[:60], K, ov if ov is not None else "an unknown value"),
                            unit=fn.unit.display, advisory=adv))
    return stat


# ---------------------------------------------------------------------------------------------
# C01.n - errors are raised, not returned as values: a VM case that stores the result of a C
# function which can return an exception object into a stack slot tests that result
# (sexp_check_exception() or an explicit sexp_exceptionp) before the next instruction is dispatched.

def may_return_exception(prog):
    """names of functions some return statement of which yields an exception constructor's result
    (directly, through a local, or through another such function)"""
    from cfg import local_defs
    out = set()
    funcs = [f for f in prog.all_funcs() if f.blocks and f.ret_type == SEXP_T]
    changed = True
    rounds = 0
    while changed and rounds < 6:
        changed = False
        rounds += 1
        for f in funcs:
            if f.name in out:
                continue

            def exc(n, depth=0):
                n = f.strip(n)
                nd = f.nodes[n]
                if nd["k"] == "call":
                    return nd.get("o") in EXC_CTORS or nd.get("o") in out
                if nd["k"] == "cond":
                    return exc(nd["c"][1], depth) or exc(nd["c"][2], depth)
                if nd["k"] == "ref" and "d" in nd and nd["d"] not in f.params and depth < 2:
                    return any(r is not None and exc(r, depth + 1) for (_d, r) in local_defs(f, nd["d"]))
                return False
            for nd in f.nodes:
                if nd["k"] == "ret" and nd.get("c") and exc(nd["c"][0]):
                    out.add(f.name)
                    changed = True
                    break
    return out


NUMERIC_ENTRY = ("sexp_add", "sexp_sub", "sexp_mul", "sexp_div", "sexp_quotient", "sexp_remainder", "sexp_compare",
                 "sexp_ratio_normalize", "sexp_subbytes_op")


def run_raise(prog, res, floor=3, prop="C01", rule="C01.n"):
    from cfg import reach_without
    stat = res.stat(rule, "VM cases: the result of a C function that can return an exception object is tested before the "
                    "next instruction is dispatched (errors reach the handler instead of becoming values)", floor=floor)
    fn = prog.func("sexp_apply")
    if fn is None:
        raise AnalysisBroken("anchor vanished: sexp_apply")
    mayexc = may_return_exception(prog)
    cx = Ctx(fn)
    # the dispatch: the block of the opcode switch
    sw = [b for b in fn.blocks.values() if b.term == "SwitchStmt" and b.id in cx.reach]
    if not sw:
        raise AnalysisBroken("anchor vanished: the opcode switch of sexp_apply")
    sw = max(sw, key=lambda b: len(b.succs))
    tests = set()
    for b in fn.blocks.values():
        if b.cond is not None and b.id in cx.reach:
            c = fn.strip(b.cond)
            if "sexp_exceptionp" in (fn.macros(c) or ()) and "stack[" in fn.txt(c):
                tests.add((b.id, len(b.elems)))
    for i, nd in enumerate(fn.nodes):
        if nd["k"] != "bin" or nd["o"] != "=":
            continue
        l, r = fn.strip(nd["c"][0]), fn.strip(nd["c"][1])
        if fn.nodes[r]["k"] != "call" or not fn.txt(l).startswith("stack["):
            continue
        name = fn.nodes[r].get("o")
        if name is None or name not in mayexc or name in EXC_CTORS:
            continue
        if name in NUMERIC_ENTRY:
            # where the VM does not test these results it has just verified both operands to be fixnums, so only
            # heap exhaustion can make the call fail (their operand guards are C01.b's business)
            continue
        at = enclosing_elem(fn, i, cx.pos)
        if at is None or at[0] not in cx.reach:
            continue
        stat.sites += 1
        stat.obligations += 1
        if reach_without(fn, at, (sw.id, 0), tests):
            res.add(Finding(prop, rule + ".exception-not-raised", fn.name, "result of %s" % name, fn.where(i),
                            "a VM case stores the result of %s (which can return an exception object) into %s and goes on to "
                            "the next instruction without testing it: the error is handed to the program as an ordinary value "
                            "instead of being raised" % (name, fn.txt(l)), unit=fn.unit.display))
        else:
            stat.discharged += 1
            stat.sample({"site": fn.where(i), "callee": name})
    return stat
