"""Rule C01.f / C15.b / C19.b: recursion on user-shaped data is bounded (family F4).

C-level recursion cycles are the SCCs of the *direct* call graph with the VM
entry points cut out (re-entering the VM is program recursion, not data-shaped
recursion; its depth is the concern of C05's stack half, which is not decided).
Every cycle must go through a *bounder*: a function that either

  depth-param      carries an integer (or boxed fixnum) parameter that is compared
                   against a limit on a path that returns without recursing, and
                   is passed on changed (P+-k, or after ++P) at every recursive
                   call  - verified by the engine on every run; or
  by-construction  is listed below with the reason its recursion depth is bounded
                   by something other than the shape of user data (confirmed by
                   reading; a role table, not a suppression of a report).

A cycle that stays cyclic after removing its bounders is reported.
"""
import re
from collections import defaultdict

import callgraph
from report import Finding
from extract import AnalysisBroken

VM_ENTRY = {"sexp_apply", "sexp_apply1", "sexp_apply2", "sexp_apply3", "sexp_apply_no_err_handler"}

DEPTH_PARAM = {
    # function: parameter name
    "analyze": "depth",
    "analyze_lambda": "depth",
    "sexp_equalp_bound": "depth",
    "sexp_write_one": "bound",
    "sexp_strip_synclos_bound": "depth",
    "sexp_contains_syntax_p_bound": "depth",
    "hash_one": "depth",
    "sexp_print_simple": "depth",
    "json_read": "depth",
    "json_write": "depth",
}

BY_CONSTRUCTION = {
    "sexp_generate": "walks the AST built by analyze(), whose nesting is limited by SEXP_MAX_ANALYZE_DEPTH",
    "sexp_free_vars": "walks the AST built by analyze() (depth-limited)",
    "simplify": "walks the AST built by analyze() (depth-limited)",
    "usedp": "walks the AST built by analyze() (depth-limited)",
    "nondefp": "walks the AST built by analyze() (depth-limited)",
    "disasm": "debug printer over bytecode literals; nesting = lambda nesting of depth-limited AST",
    "sexp_bignum_mul": "Karatsuba: recursive calls on halves of the operands, depth log2(length)",
    "sexp_merge_sort": "recursive calls on halves of the range, depth log2(n)",
    "sexp_merge_sort_less": "recursive calls on halves of the range, depth log2(n)",
    "sexp_mark_one": "recurses only for the root variables of a context object (ctx->saves); everything else uses the explicit mark stack",
    "sexp_bignum_add_digits": "recurses once with the operands swapped so that the longer one comes first",
    "sexp_bignum_sub_digits": "recurses once with the operands swapped",
    "sexp_type_exception": "error-message construction with constant format strings; recursion only if building the message itself fails with a type error, which its constant arguments exclude",
    "sexp_xtype_exception": "error-message construction with constant strings (same as sexp_type_exception)",
    "sexp_make_eval_context": "bootstrap: the root context initialises its globals once, creating one child context",
    "sexp_exact_to_inexact": "recurses once per component of a complex/ratio (numeric tower height)",
    "sexp_sqrt": "recurses once on the real part of a complex argument",
    "integer_log2": "recurses on a strictly smaller constant-width shift",
    "sexp_double_to_quarter": "recurses once on the negated argument",
    "sexp_arithmetic_shift": "recurses once after converting a fixnum operand to a bignum",
    "sexp_bit_and": "recurses once after converting a fixnum operand to a bignum / swapping",
    "sexp_bit_ior": "recurses once after converting a fixnum operand to a bignum / swapping",
    "sexp_bit_xor": "recurses once after converting a fixnum operand to a bignum / swapping",
    "sexp_add_path": "one retry after growing a buffer",
    "sexp_object_compare": "SRFI-95 ordering predicate: recursion on the car/elements of the *keys* being compared is data-shaped (listed; see advisory)",
    # numeric tower: every recursive call re-dispatches with an operand moved to a
    # strictly higher tower level (fixnum < bignum < ratio < flonum < complex)
    "sexp_add": "numeric-tower coercion: re-dispatch with one operand lifted one level",
    "sexp_sub": "numeric-tower coercion",
    "sexp_mul": "numeric-tower coercion",
    "sexp_div": "numeric-tower coercion",
    "sexp_quotient": "numeric-tower coercion",
    "sexp_remainder": "numeric-tower coercion",
    "sexp_compare": "numeric-tower coercion",
    "sexp_ratio_normalize": "numeric-tower coercion (gcd loop is iterative)",
    "sexp_inexact_to_exact": "numeric-tower coercion",
    "sexp_to_double": "numeric-tower coercion",
}

ADVISORY = {
    "sexp_print_exception_op": "unwraps nested continuable/uncaught exception wrappers by a self tail call; data-shaped only "
                               "through hand-built nested exception objects; no crashing input established",
    "sexp_fill_reader_labels": "datum-label patching recurses over every slot of the datum just read; "
                               "no crashing input established (4M-element labelled list is fine)",
}


# callee -> index of the parameter that carries the datum being traversed.  A call that
# passes a freshly boxed immediate there (an integer expression cast to sexp) cannot recurse
# on user data and is not an edge of the recursion graph.
DATUM_ARG = {"sexp_write_op": 3}


def _immediate_arg(fn, a):
    a0 = a
    while fn.nodes[a0]["k"] == "cast":
        inner = fn.nodes[a0]["c"][0]
        t = fn.type(inner) or ""
        if not t.endswith("*"):
            return True      # integer-typed expression boxed into a sexp word
        a0 = inner
    return False


def direct_graph(cg):
    direct = defaultdict(set)
    for fn in cg.funcs:
        if fn.name in VM_ENTRY:
            continue
        for i, nd in enumerate(fn.nodes):
            if nd["k"] == "call" and nd.get("o"):
                t = cg.resolve(fn.unit, nd["o"])
                if t is not None and t.name not in VM_ENTRY:
                    di = DATUM_ARG.get(t.name)
                    if di is not None and di < len(nd["c"]) - 1 and _immediate_arg(fn, nd["c"][1 + di]):
                        continue
                    direct[fn].add(t)
    return direct


def sccs_of(cg, edges, nodes=None):
    saved = cg.edges
    cg.edges = edges
    try:
        comps = cg.sccs(nodes)
    finally:
        cg.edges = saved
    return [c for c in comps if len(c) > 1 or c[0] in edges.get(c[0], ())]


def verify_depth_param(fn, pname, cycle_names):
    """(ok, reason).  `pname` is only a hint: when no parameter of that name exists (it was renamed) every
    integer-like parameter is tried and the first one that carries the idiom is taken."""
    names = [fn.vars[v]["n"] for v in fn.params]
    order = ([pname] if pname in names else []) + [n for v, n in zip(fn.params, names) if n != pname and
                                                   (fn.var_type(v) in ("int", "long", "unsigned int", "unsigned long", "short")
                                                    or fn.var_type(v) == "struct sexp_struct *") and n not in ("ctx", "self")]
    fails = []
    for cand in order:
        ok, why = _verify_with_param(fn, cand, cycle_names)
        if ok or cand == pname:
            verify_depth_param.pname_of[fn.name] = cand
            return ok, why
        fails.append((cand, why))
    # no parameter carries the idiom: report the candidate that came closest (one that is compared and
    # threaded but restarted somewhere, i.e. a per-call-site list) before a plain "no comparison"
    for cand, why in fails:
        if isinstance(why, list):
            verify_depth_param.pname_of[fn.name] = cand
            return False, why
    return (False, fails[0][1]) if fails else (False, "no parameter of %s carries a depth count" % fn.name)


verify_depth_param.pname_of = {}


def predicate_summary(fn, name):
    """a helper `int p(int x) { return x > CONST; }`: (parameter index, operator, constant) or None"""
    g = fn.unit.functions.get(name)
    if g is None or not g.blocks:
        return None
    rets = [g.strip(nd["c"][0]) for nd in g.nodes if nd["k"] == "ret" and nd.get("c")]
    if len(rets) != 1:
        return None
    rn = g.nodes[rets[0]]
    if rn["k"] != "bin" or rn["o"] not in ("<", "<=", ">", ">="):
        return None
    l, r = g.strip(rn["c"][0]), g.strip(rn["c"][1])
    if g.nodes[l]["k"] == "ref" and g.nodes[l].get("d") in g.params and g.const_val(r) is not None:
        return (g.params.index(g.nodes[l]["d"]), rn["o"])
    if g.nodes[r]["k"] == "ref" and g.nodes[r].get("d") in g.params and g.const_val(l) is not None:
        return (g.params.index(g.nodes[r]["d"]), {"<": ">", "<=": ">=", ">": "<", ">=": "<="}[rn["o"]])
    return None


def _verify_with_param(fn, pname, cycle_names):
    """(ok, reason).  The depth idiom, checked on the AST/CFG of fn."""
    pv = [v for v in fn.params if fn.vars[v]["n"] == pname]
    if not pv:
        return False, "parameter %s vanished" % pname
    pv = pv[0]
    # P mutated in the function (++depth / depth-- / depth = depth - 1)?
    mutated = False
    for nd in fn.nodes:
        if nd["k"] == "un" and nd["o"] in ("pre++", "pre--", "post++", "post--"):
            x = fn.strip(nd["c"][0])
            if fn.nodes[x]["k"] == "ref" and fn.nodes[x].get("d") == pv:
                mutated = True
        if nd["k"] == "bin" and nd["o"] in ("+=", "-=", "="):
            x = fn.strip(nd["c"][0])
            if fn.nodes[x]["k"] == "ref" and fn.nodes[x].get("d") == pv:
                mutated = True
    # derived locals: every definition is a non-trivial expression over P (depth2 = depth - 1)
    from cfg import local_defs, dominators, block_reach
    derived = set()
    for vid, v in enumerate(fn.vars):
        if vid == pv or vid in fn.params:
            continue
        defs = local_defs(fn, vid)
        if defs and all(r is not None and pv in fn.refs_in(r) and fn.nodes[fn.strip(r)]["k"] != "ref" for (_d, r) in defs):
            derived.add(vid)
    # blocks containing a call into the cycle
    rec_blocks = set()
    for b in fn.blocks.values():
        for e in b.elems:
            if fn.nodes[e]["k"] == "call" and fn.nodes[e].get("o") in cycle_names:
                rec_blocks.add(b.id)
    if not rec_blocks:
        return False, "no call into the cycle"
    # (1) a comparison on P whose block dominates every recursive call and one of whose
    #     edges leads to the exit without any recursive call being reachable
    dom = dominators(fn)
    guard = False
    direction = None      # 'up': recursion stops when P is large; 'down': when P is small
    from cfg import implied, linform
    for b in fn.blocks.values():
        if b.cond is None or len(b.succs) != 2:
            continue
        pset = {pv} | derived
        if not (pset & fn.refs_in(b.cond)):
            continue
        if not all(b.id in dom.get(r, ()) or b.id == r for r in rec_blocks):
            continue
        for idx, s in enumerate(b.succs):
            if s is None or s < 0:
                continue
            reach = block_reach(fn, s) | {s}
            if (reach & rec_blocks) or (fn.exit not in reach):
                continue
            # this edge leaves without recursing: what does it say about P?
            cond = fn.strip(b.cond)
            # clang splits short-circuit operators over blocks: the block that ends the whole
            # `A || B` / `A && B` evaluates only its rightmost operand
            while fn.nodes[cond]["k"] == "bin" and fn.nodes[cond]["o"] in ("||", "&&"):
                cond = fn.strip(fn.nodes[cond]["c"][1])
            for (a, pol) in implied(fn, cond, idx == 0):
                an = fn.nodes[a]
                if an["k"] == "call" and an.get("o"):
                    # the limit test was moved into a predicate: too_deep_p(depth)
                    ps = predicate_summary(fn, an["o"])
                    args = an["c"][1:]
                    if ps is None or ps[0] >= len(args) or not (pset & fn.refs_in(args[ps[0]])):
                        continue
                    o = ps[1]
                    if not pol:
                        o = {"<": ">=", "<=": ">", ">": "<=", ">=": "<"}[o]
                    d = "up" if o in (">", ">=") else "down"
                    guard = True
                    direction = d
                    continue
                if an["k"] != "bin" or an["o"] not in ("<", "<=", ">", ">="):
                    continue
                l, r = an["c"]
                o = an["o"]
                if not pol:
                    o = {"<": ">=", "<=": ">", ">": "<=", ">=": "<"}[o]
                if (pset & fn.refs_in(l)) and not (pset & fn.refs_in(r)):
                    d = "up" if o in (">", ">=") else "down"
                elif (pset & fn.refs_in(r)) and not (pset & fn.refs_in(l)):
                    d = "down" if o in (">", ">=") else "up"
                else:
                    continue
                guard = True
                direction = d
        if guard:
            break
    if not guard:
        return False, "no comparison on `%s` dominates the recursive calls with an exit edge that cannot recurse" % pname
    # net change of P by in-place updates (++depth in the guard, depth-- before the loop)
    bump = 0
    for nd in fn.nodes:
        if nd["k"] == "un" and nd["o"] in ("pre++", "post++", "pre--", "post--"):
            x = fn.strip(nd["c"][0])
            if fn.nodes[x]["k"] == "ref" and fn.nodes[x].get("d") == pv:
                bump += 1 if "++" in nd["o"] else -1
    # (2) every call into the cycle passes P moved in the guard's direction
    ncalls = 0
    bad = []
    for i, nd in enumerate(fn.nodes):
        if nd["k"] == "call" and nd.get("o") in cycle_names:
            ncalls += 1
            verdict = None
            for a in nd["c"][1:]:
                refs = fn.refs_in(a)
                if not (pv in refs or (refs & derived)):
                    continue
                lf = linform(fn, a)
                coef = lf[1].get(pname)
                if coef != 1 or len(lf[1]) != 1:
                    verdict = verdict or "unknown"
                    continue
                step = lf[0] + bump
                ok = (step > 0) if direction == "up" else (step < 0)
                verdict = "ok" if ok else "wrong"
                if ok:
                    break
            if verdict != "ok":
                why = "does not pass a changed `%s`" % pname if verdict is None else \
                    ("passes `%s` moved against the bound (the guard stops the recursion when it is %s)"
                     % (pname, "large" if direction == "up" else "small")) if verdict == "wrong" else \
                    "passes a value of `%s` the rule cannot order" % pname
                bad.append((nd["o"], "recursive call %s %s" % (nd["o"], why)))
    verify_depth_param.direction = direction
    if bad:
        return False, bad
    return True, "%d recursive calls pass a changed `%s`" % (ncalls, pname)


def thread_depth(comp, verified):
    """[(caller Func, callee name, why, call node)]: calls inside the cycle that do not pass the caller's own
    count parameter (coefficient 1, offset not against the direction) in the callee's count position"""
    from cfg import linform
    byname = {f.name: f for f in comp}
    # callee name -> (parameter index, direction)
    known = {}
    for f in comp:
        if f.name in DEPTH_PARAM and f.name in verified:
            pn = verify_depth_param.pname_of.get(f.name, DEPTH_PARAM[f.name])
            idx = [k for k, v in enumerate(f.params) if f.vars[v]["n"] == pn]
            if idx:
                known[f.name] = (idx[0], verified[f.name])
    out = []
    work = list(known)
    seen_edges = set()
    while work:
        cal = work.pop()
        idx, direction = known[cal]
        for f in comp:
            pnames = {f.vars[v]["n"]: k for k, v in enumerate(f.params)}
            for i, nd in enumerate(f.nodes):
                if nd["k"] != "call" or nd.get("o") != cal or (f.name, i) in seen_edges:
                    continue
                seen_edges.add((f.name, i))
                args = nd["c"][1:]
                if idx >= len(args):
                    continue
                if f.name in known and f.name in DEPTH_PARAM:
                    continue          # the bounder's own calls were judged by verify_depth_param
                lf = linform(f, args[idx])
                terms = [(t, c) for t, c in lf[1].items()]
                if len(terms) == 1 and terms[0][1] == 1 and terms[0][0] in pnames:
                    off = lf[0]
                    if direction == "up" and off < 0 or direction == "down" and off > 0:
                        out.append((f, cal, "passes its count moved against the bound (%s)" % f.txt(args[idx])[:40], i))
                        continue
                    k = pnames[terms[0][0]]
                    if f.name not in known:
                        known[f.name] = (k, direction)
                        work.append(f.name)
                    elif known[f.name][0] != k:
                        out.append((f, cal, "passes `%s`, not the parameter that carries the count elsewhere" % terms[0][0], i))
                else:
                    out.append((f, cal, "passes `%s` as the count, which is not derived from a count of its own"
                                % f.txt(args[idx])[:40], i))
    return out


def run(prog, res, prop, rule, roots=None, floor=10, cg=None, only_units=None, known_names=()):
    """roots: names of entry points; only cycles reachable from them are this property's business"""
    cg = cg or callgraph.CallGraph(prog)
    direct = direct_graph(cg)
    stat = res.stat(rule, "direct-recursion cycles (VM entry cut) each pass through a verified depth-parameter "
                    "bounder or a listed by-construction bounder", floor=floor)
    if roots:
        saved = cg.edges
        cg.edges = direct
        try:
            rootfs = [f for f in cg.funcs if f.name in roots]
            missing = set(roots) - {f.name for f in rootfs}
            if missing:
                raise AnalysisBroken("anchor vanished: recursion roots %s" % sorted(missing))
            reach = cg.reach(rootfs)
        finally:
            cg.edges = saved
    else:
        reach = set(cg.funcs)
    cycles = sccs_of(cg, direct)
    verified = {}
    for comp in cycles:
        names = {f.name for f in comp}
        if not (set(comp) & reach):
            continue
        if only_units and not any(f.unit.name in only_units for f in comp):
            continue
        stat.sites += 1
        stat.obligations += 1
        bounders = set()
        notes = []
        partial = {}      # verified guard, but these callees are reached with an unbounded depth
        guarded = {}      # name -> direction, for every member whose guard was verified
        for f in comp:
            if f.name in DEPTH_PARAM:
                ok, why = verify_depth_param(f, DEPTH_PARAM[f.name], names)
                if ok:
                    verified[f.name] = (ok, why, getattr(verify_depth_param, "direction", None))
                    guarded[f.name] = verified[f.name][2]
                    bounders.add(f)
                elif isinstance(why, list):
                    guarded[f.name] = getattr(verify_depth_param, "direction", None)
                    partial[f] = {c for (c, _w) in why}
                    for (_c, w) in why:
                        if "%s: %s" % (f.name, w) not in notes:
                            notes.append("%s: %s" % (f.name, w))
                else:
                    notes.append("%s: %s" % (f.name, why))
            elif f.name in BY_CONSTRUCTION:
                bounders.add(f)
        # the count must survive the trip around the cycle: every member that calls (directly or through other
        # members) a verified bounder hands on its own count parameter, moved only in the bounder's direction
        for (caller, callee, why, node) in thread_depth(comp, guarded):
            res.add(Finding(prop, rule + ".depth-restart", caller.name, "call of %s" % callee, caller.where(node),
                            "%s is on a recursion cycle that is bounded by a depth parameter, but its call of %s %s: "
                            "the bound starts over at that call, so nesting through it is unbounded"
                            % (caller.name, callee, why), unit=caller.unit.display,
                            advisory=all(n in ADVISORY for n in names)))
        rest = [f for f in comp if f not in bounders]
        sub = sccs_of(cg, {f: {g for g in direct.get(f, ()) if g in rest and
                               (f not in partial or g.name in partial[f])} for f in rest}, rest)
        rep = sorted(names)[0]
        if not sub:
            stat.discharged += 1
            stat.sample({"cycle": sorted(names)[:6], "bounders": sorted(f.name for f in bounders),
                         "how": [verified[f.name][1] if f.name in verified else BY_CONSTRUCTION[f.name][:60]
                                 for f in sorted(bounders, key=lambda f: f.name)][:3]})
            continue
        for c2 in sub:
            n2 = sorted(f.name for f in c2)
            anchor = n2[0]
            for pref in ("sexp_read_raw", "json_read", "json_write", "sexp_read_number"):
                if pref in n2:
                    anchor = pref
            f0 = [f for f in c2 if f.name == anchor][0]
            adv = all(n in ADVISORY for n in n2)
            disc = "cycle through " + anchor
            mine = [x for x in notes if x.split(":")[0] in n2]
            for note in (mine or [None]):
                # the identity of a finding must not depend on how a parameter is called
                d = disc + (" (" + re.sub(r"`[A-Za-z_0-9]+`", "<count>", note) + ")" if note else "")
                res.add(Finding(prop, rule + ".unbounded", anchor, d, f0.where(),
                                "recursion cycle {%s} has no depth bound: nesting depth of user-shaped input maps to C stack "
                                "depth%s" % (", ".join(n2[:6]), ("; " + note) if note else ""),
                                unit=f0.unit.display, advisory=adv, extra={"cycle": n2}))
    return stat
