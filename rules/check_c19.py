import extract
import callgraph
from rules import c19, c04c, c01, recursion, bufbudget, common
import report


ACCESSOR_UNITS = ("uvprims.c", "bytevector.c")


def type_guards(prog, res, floor=60):
    """(g) the kind-set dataflow of C01.b, read for the numeric accessor stubs: every field of the vector argument
    is read only after a tag test that admits only (uniform / byte) vectors - an accessor applied to a list or a
    fixnum signals an error instead of reading through it"""
    tmp = report.Result("C19", "quick")
    c01.run_b(prog, tmp, floor=0)
    stat = res.stat("C19.g", "numeric accessor stubs: typed accesses on the vector argument are dominated by its tag test", floor=floor)
    n = 0
    for st in tmp.stats:
        pass
    for f in list(tmp.findings) + list(tmp.advisories):
        if f.rule.startswith("C01.b") and any(f.unit.endswith(u) for u in ACCESSOR_UNITS):
            f.prop = "C19"
            f.rule = "C19.g.untyped-vector-argument"
            f.advisory = False
            res.add(f)
            n += 1
    # obligations of those units: counted from the generated stubs themselves
    total = 0
    for fn in prog.all_funcs():
        if fn.unit.name in ACCESSOR_UNITS and fn.blocks and fn.name.endswith("_stub"):
            total += 1
    stat.sites = total
    stat.obligations = total
    stat.discharged = max(0, total - n)
    return stat


def run(res, tier, replay=None):
    prog = extract.load_program("default")
    res.functions = sum(1 for _ in prog.all_funcs())
    c19.run_a(prog, res)
    cg = callgraph.CallGraph(prog)
    recursion.run(prog, res, "C19", "C19.b", roots=None, floor=2, cg=cg, only_units={"json.c"})
    bufbudget.run(prog, res, "C19", "C19.c", {"json.c"}, floor=1)
    c04c.run_bounds(prog, res, "C19", "C19.d", {"json.c"}, floor=0)
    c04c.run_fromdouble(prog, res, "C19", "C19.e", {"json.c"}, floor=0)
    c19.run_f(prog, res)
    type_guards(prog, res)
    c19.run_h(prog, res)
    c19.run_i(prog, res, floor=1)
    c04c.bounds_witnesses(prog, res)
    res.assumptions = common.ASSUMPTIONS
    res.explanation = (
        "C19 structural clauses: (a) for every generated accessor stub of lib/scheme/bytevector.stub and "
        "lib/srfi/160/uvprims.stub (re-generated from the working tree) that passes the data pointer of a bytevector and an "
        "offset to an accessor helper, the helper's access width (memcpy size / indexed element size, summarised through the "
        "static helpers) and the branch conditions dominating the call must imply 0 <= off and off + width <= length of the "
        "same object (uniform vectors: 0 <= i < uvector-length of the same vector); (b) the recursion cycles of lib/chibi/json.c "
        "go through a verified depth bound; (c) growable string buffers of json.c: the index advances by at most K between two evaluations of the growth guard `i + K >= size`. (d) the JSON number reader compares its double against SEXP_MAX_FIXNUM with the operator that stays correct under rounding of that constant; (e) no fixnum is boxed from a double accumulator unless a comparison holding on every path bounds its magnitude by 2^53 (a JSON integer must not lose its low bits on the way in). (f) JSON string escapes: every escape letter json_write_string emits is decoded by json_read_string to the character it stood for, and the quote and the backslash are escaped. (g) every generated accessor stub of (srfi 160) and (scheme bytevector) type-checks its vector argument before reading its length or data (the kind-set dataflow of C01.b applied to these units, where the property asks for totality). (h) in the hand-written helpers of those units, a load of a w-byte unit at `p + i` whose index is bounded by a dominating comparison with a never-assigned parameter has the slack of the whole unit (i + (w-1) < L): the UTF-16 / UTF-32 decoders do not read past a truncated input. (i) in those units no assignment to an 8- or 16-bit integer variable adds a constant that exceeds the variable's range (the supplementary-plane base 0x10000 of the UTF-16 decoder was lost that way; repaired). Not decided: encode/decode inverses, base64/QP/URI/CSV (Scheme), mini-floats.")
    if tier == "thorough":
        common.thorough_mutations(res, "C19", {
            "C19.a": lambda p, r: c19.run_a(p, r, floor=0),
            "C19.c": lambda p, r: bufbudget.run(p, r, "C19", "C19.c", {"json.c"}, floor=0),
            "C19.b": lambda p, r: recursion.run(p, r, "C19", "C19.b", roots=None, floor=0, only_units={"json.c"}),
            "C19.d": lambda p, r: c04c.run_bounds(p, r, "C19", "C19.d", {"json.c"}, floor=0),
            "C19.f": lambda p, r: c19.run_f(p, r, floor=0),
            "C19.h": lambda p, r: c19.run_h(p, r, floor=0),
            "C19.i": lambda p, r: c19.run_i(p, r, floor=0),
            "C19.g": lambda p, r: type_guards(p, r, floor=0),
            "C19.e": lambda p, r: c04c.run_fromdouble(p, r, "C19", "C19.e", {"json.c"}, floor=0),
        })
