import extract
import callgraph
from rules import c19, c04c, recursion, bufbudget, common


def run(res, tier, replay=None):
    prog = extract.load_program("default")
    res.functions = sum(1 for _ in prog.all_funcs())
    c19.run_a(prog, res)
    cg = callgraph.CallGraph(prog)
    recursion.run(prog, res, "C19", "C19.b", roots=None, floor=2, cg=cg, only_units={"json.c"})
    bufbudget.run(prog, res, "C19", "C19.c", {"json.c"}, floor=1)
    c04c.run_bounds(prog, res, "C19", "C19.d", {"json.c"}, floor=0)
    c04c.run_fromdouble(prog, res, "C19", "C19.e", {"json.c"}, floor=0)
    c19.run_f(prog, res)
    c04c.bounds_witnesses(prog, res)
    res.assumptions = common.ASSUMPTIONS
    res.explanation = (
        "C19 structural clauses: (a) for every generated accessor stub of lib/scheme/bytevector.stub and "
        "lib/srfi/160/uvprims.stub (re-generated from the working tree) that passes the data pointer of a bytevector and an "
        "offset to an accessor helper, the helper's access width (memcpy size / indexed element size, summarised through the "
        "static helpers) and the branch conditions dominating the call must imply 0 <= off and off + width <= length of the "
        "same object (uniform vectors: 0 <= i < uvector-length of the same vector); (b) the recursion cycles of lib/chibi/json.c "
        "go through a verified depth bound; (c) growable string buffers of json.c: the index advances by at most K between two evaluations of the growth guard `i + K >= size`. (d) the JSON number reader compares its double against SEXP_MAX_FIXNUM with the operator that stays correct under rounding of that constant; (e) no fixnum is boxed from a double accumulator unless a comparison holding on every path bounds its magnitude by 2^53 (a JSON integer must not lose its low bits on the way in). (f) JSON string escapes: every escape letter json_write_string emits is decoded by json_read_string to the character it stood for, and the quote and the backslash are escaped. Not decided: encode/decode inverses, base64/QP/URI/CSV (Scheme), mini-floats.")
    if tier == "thorough":
        common.thorough_mutations(res, "C19", {
            "C19.a": lambda p, r: c19.run_a(p, r, floor=0),
            "C19.c": lambda p, r: bufbudget.run(p, r, "C19", "C19.c", {"json.c"}, floor=0),
            "C19.b": lambda p, r: recursion.run(p, r, "C19", "C19.b", roots=None, floor=0, only_units={"json.c"}),
            "C19.d": lambda p, r: c04c.run_bounds(p, r, "C19", "C19.d", {"json.c"}, floor=0),
            "C19.f": lambda p, r: c19.run_f(p, r, floor=0),
            "C19.e": lambda p, r: c04c.run_fromdouble(p, r, "C19", "C19.e", {"json.c"}, floor=0),
        })
