import extract
import callgraph
from rules import c19, recursion, bufbudget, common


def run(res, tier, replay=None):
    prog = extract.load_program("default")
    res.functions = sum(1 for _ in prog.all_funcs())
    c19.run_a(prog, res)
    cg = callgraph.CallGraph(prog)
    recursion.run(prog, res, "C19", "C19.b", roots=None, floor=2, cg=cg, only_units={"json.c"})
    bufbudget.run(prog, res, "C19", "C19.c", {"json.c"}, floor=1)
    res.assumptions = common.ASSUMPTIONS
    res.explanation = (
        "C19 structural clauses: (a) for every generated accessor stub of lib/scheme/bytevector.stub and "
        "lib/srfi/160/uvprims.stub (re-generated from the working tree) that passes the data pointer of a bytevector and an "
        "offset to an accessor helper, the helper's access width (memcpy size / indexed element size, summarised through the "
        "static helpers) and the branch conditions dominating the call must imply 0 <= off and off + width <= length of the "
        "same object (uniform vectors: 0 <= i < uvector-length of the same vector); (b) the recursion cycles of lib/chibi/json.c "
        "go through a verified depth bound; (c) growable string buffers of json.c: the index advances by at most K between two evaluations of the growth guard `i + K >= size`. Not decided: encode/decode inverses, base64/QP/URI/CSV (Scheme), mini-floats.")
    if tier == "thorough":
        common.thorough_mutations(res, "C19", {
            "C19.a": lambda p, r: c19.run_a(p, r, floor=0),
            "C19.c": lambda p, r: bufbudget.run(p, r, "C19", "C19.c", {"json.c"}, floor=0),
            "C19.b": lambda p, r: recursion.run(p, r, "C19", "C19.b", roots=None, floor=0, only_units={"json.c"}),
        })
