import extract
from rules import c04, common


def run(res, tier, replay=None):
    prog = extract.load_program("default", only={"bignum.c", "eval.c", "sexp.c", "bit.c", "vm.c", "opcodes.c"})
    res.functions = sum(1 for _ in prog.all_funcs())
    c04.run(prog, res)
    res.assumptions = common.ASSUMPTIONS
    res.explanation = (
        "C04, one clause: every value returned by the generic arithmetic entry points (sexp_add/sub/mul/div/quotient/remainder, "
        "expt, exact-sqrt, inexact->exact, the SRFI-151 bit operations, the ratio operations, the number reader) that may come from "
        "a raw bignum/ratio producer passes through sexp_bignum_normalize / sexp_ratio_normalize first (forward may-taint dataflow; "
        "producers inferred from the allocation sites and closed over the representation helpers). Not decided: digit-level "
        "correctness of add/sub/Karatsuba/division, number parsing/printing, the 128-bit helper type.")
    if tier == "thorough":
        common.thorough_mutations(res, "C04", {"C04": lambda p, r: c04.run(p, r)})
