import extract
from rules import c04, c04c, c01, common


def run(res, tier, replay=None):
    prog = extract.load_program("default", only={"bignum.c", "eval.c", "sexp.c", "bit.c", "vm.c", "opcodes.c"})
    res.functions = sum(1 for _ in prog.all_funcs())
    c04.run(prog, res)
    c04c.run(prog, res, prims=c01.primitives(prog))
    c04c.run_bounds(prog, res, "C04", "C04.d", {"eval.c", "bignum.c", "sexp.c", "bit.c", "vm.c"}, floor=0)
    c04c.bounds_witnesses(prog, res)
    c04c.run_radix(prog, res, "C04", "C04.f", {"sexp.c", "bignum.c"}, floor=3)
    c04c.run_unbox_belief(prog, res, "C04", "C04.e", {"eval.c", "bignum.c", "sexp.c", "bit.c", "vm.c"}, floor=20)
    res.assumptions = common.ASSUMPTIONS
    res.explanation = (
        "C04, two clauses. (c) numbers are immutable: every in-place store to a bignum's sign or a flonum's value is followed - "
        "along feasible paths for the object's origin (fresh allocation / copy, or an operand, or whatever a callee may hand back "
        "unchanged: passthrough summaries from the callees' return statements), then through the helpers that take a destination - "
        "up to the functions Scheme code reaches with its own values (VM arithmetic entry points, opcodes[] and foreign functions), "
        "none of which may modify (a part of) an operand. (d) a double compared with an integer constant that binary64 cannot represent "
        "(SEXP_MAX_FIXNUM) uses the operator that stays correct when the constant is rounded. (f) a function of the number reader that received the radix passes it on to every reader it calls. (e) no value is unboxed as a fixnum where the dominating numeric tests (sexp_exact_integerp ...) still admit a bignum, flonum, ratio or complex. (a) every value returned by the generic arithmetic entry points (sexp_add/sub/mul/div/quotient/remainder, "
        "expt, exact-sqrt, inexact->exact, the SRFI-151 bit operations, the ratio operations, the number reader) that may come from "
        "a raw bignum/ratio producer passes through sexp_bignum_normalize / sexp_ratio_normalize first (forward may-taint dataflow; "
        "producers inferred from the allocation sites and closed over the representation helpers). Not decided: digit-level "
        "correctness of add/sub/Karatsuba/division, number parsing/printing, the 128-bit helper type.")
    if tier == "thorough":
        common.thorough_mutations(res, "C04", {"C04": lambda p, r: c04.run(p, r),
                                                   "C04.c": lambda p, r: c04c.run(p, r, floor=0, prims=c01.primitives(p)),
                                                   "C04.e": lambda p, r: c04c.run_unbox_belief(p, r, "C04", "C04.e", {"eval.c", "bignum.c", "sexp.c", "bit.c", "vm.c"}, floor=0),
                                                   "C04.f": lambda p, r: c04c.run_radix(p, r, "C04", "C04.f", {"sexp.c", "bignum.c"}, floor=0),
                                                   "C04.d": lambda p, r: c04c.run_bounds(p, r, "C04", "C04.d", {"eval.c", "bignum.c", "sexp.c", "bit.c", "vm.c"}, floor=0)})
