"""C04 - exact arithmetic: canonical-form must-pass-through (rule family F7).

Raw bignum producers return possibly non-canonical values (a bignum that fits a fixnum, spare high
words); sexp_bignum_normalize is the sanitizer.  The value returned by each generic arithmetic entry
point (what the VM and the opcode table call) must not be a raw producer's result that did not pass
through the sanitizer.  Same for sexp_make_ratio / sexp_ratio_normalize."""
import tables
from report import Finding
from extract import AnalysisBroken

# seed of the raw-producer set: the allocators of the two representations.  Every function that may
# return a seed's result without the sanitizer is added by fixpoint (infer_raw), so helpers such as
# sexp_bignum_add are raw while sexp_bignum_expt (which normalizes before returning) is not.
RAW_BIGNUM = {"sexp_make_bignum"}
RAW_RATIO = {"sexp_make_ratio"}
SANITIZERS = {"sexp_bignum_normalize": "big", "sexp_ratio_normalize": "rat"}

# generic entry points: what the VM's arithmetic opcodes, the opcode table and the numeric libraries call
ENTRY_POINTS = ["sexp_add", "sexp_sub", "sexp_mul", "sexp_div", "sexp_quotient", "sexp_remainder", "sexp_expt_op",
                "sexp_exact_sqrt", "sexp_inexact_to_exact", "sexp_bit_and", "sexp_bit_ior", "sexp_bit_xor",
                "sexp_arithmetic_shift", "sexp_read_number", "sexp_string_to_number_op", "sexp_ratio_add", "sexp_ratio_mul",
                "sexp_ratio_floor", "sexp_ratio_ceiling", "sexp_ratio_round", "sexp_ratio_truncate"]


def taint_of_expr(fn, n, state, depth=0):
    """set of taints {'big','rat'} the value of expression n may carry"""
    n = fn.strip(n)
    nd = fn.nodes[n]
    k = nd["k"]
    if k == "call":
        name = nd.get("o")
        if name in RAW_BIGNUM:
            return {"big"}
        if name in RAW_RATIO:
            return {"rat"}
        if name in SANITIZERS:
            inner = taint_of_expr(fn, nd["c"][-1] if name == "sexp_bignum_normalize" else nd["c"][2], state, depth + 1) \
                if len(nd["c"]) > 1 else set()
            return inner - {SANITIZERS[name]}
        return set()
    if k == "ref" and "d" in nd:
        return set(state.get(nd["d"], ()))
    if k in ("cond",):
        return taint_of_expr(fn, nd["c"][1], state, depth + 1) | taint_of_expr(fn, nd["c"][2], state, depth + 1)
    if k == "bin" and nd["o"] == "=":
        return taint_of_expr(fn, nd["c"][1], state, depth + 1)
    if k == "bin" and nd["o"] == ",":
        return taint_of_expr(fn, nd["c"][1], state, depth + 1)
    return set()


def analyse(fn):
    """forward may-taint dataflow; returns list of (ret node, taints)"""
    order = fn.rpo()
    instate = {fn.entry: {}}
    changed = True
    rounds = 0
    rets = {}

    def flow(b, st, record):
        st = {k: set(v) for k, v in st.items()}
        for e in fn.blocks[b].elems:
            nd = fn.nodes[e]
            if nd["k"] == "bin" and nd["o"] == "=":
                l = fn.strip(nd["c"][0])
                if fn.nodes[l]["k"] == "ref" and "d" in fn.nodes[l]:
                    st[fn.nodes[l]["d"]] = taint_of_expr(fn, nd["c"][1], st)
            elif nd["k"] == "decl" and "d" in nd and nd.get("c"):
                st[nd["d"]] = taint_of_expr(fn, nd["c"][0], st)
            elif nd["k"] == "ret" and nd.get("c") and record:
                t = taint_of_expr(fn, nd["c"][0], st)
                rets[e] = rets.get(e, set()) | t
        return st

    while changed and rounds < 40:
        changed = False
        rounds += 1
        for b in order:
            st = instate.get(b)
            if st is None:
                continue
            out = flow(b, st, False)
            for s in fn.blocks[b].succs:
                if s is None or s < 0 or s == fn.exit:
                    continue
                old = instate.get(s)
                if old is None:
                    instate[s] = {k: set(v) for k, v in out.items()}
                    changed = True
                else:
                    for k, v in out.items():
                        if not v <= old.get(k, set()):
                            old[k] = old.get(k, set()) | v
                            changed = True
    for b in order:
        if b in instate:
            flow(b, instate[b], True)
    return rets


def infer_raw(prog):
    """close RAW_BIGNUM / RAW_RATIO under `may return an unsanitized raw value`"""
    units = [u for u in prog.units if u.name in ("bignum.c", "eval.c", "sexp.c", "bit.c")]
    changed = True
    rounds = 0
    while changed and rounds < 8:
        changed = False
        rounds += 1
        for u in units:
            for fn in u.functions.values():
                if fn.ret_type != tables.SEXP_T or fn.name in SANITIZERS:
                    continue
                # only the representation-level helpers are raw producers; generic functions that merely
                # hand a value through (readers, evaluators) are judged as entry points, not as producers
                if "bignum" not in fn.name and "ratio" not in fn.name:
                    continue
                rets = analyse(fn)
                t = set().union(*rets.values()) if rets else set()
                if "big" in t and fn.name not in RAW_BIGNUM:
                    RAW_BIGNUM.add(fn.name)
                    changed = True
                if "rat" in t and fn.name not in RAW_RATIO:
                    RAW_RATIO.add(fn.name)
                    changed = True


def run(prog, res, only=None):
    stat = res.stat("C04.canonical", "values returned by the generic arithmetic entry points pass through "
                    "sexp_bignum_normalize / sexp_ratio_normalize when they come from a raw producer", floor=10)
    RAW_BIGNUM.clear()
    # seeds: functions that allocate an object with the bignum tag themselves
    for fn in prog.all_funcs():
        for nd in fn.nodes:
            if nd["k"] == "call" and nd.get("o") == "sexp_alloc_tagged_aux" and len(nd["c"]) > 3:
                tagn = fn.nodes[fn.strip(nd["c"][3])]
                if tagn.get("o") == "SEXP_BIGNUM":
                    RAW_BIGNUM.add(fn.name)
    if "sexp_make_bignum" not in RAW_BIGNUM:
        raise AnalysisBroken("anchor vanished: sexp_make_bignum no longer allocates with SEXP_BIGNUM")
    RAW_RATIO.clear()
    RAW_RATIO.add("sexp_make_ratio")
    infer_raw(prog)
    res.notes.append("raw bignum producers (inferred): %s" % sorted(RAW_BIGNUM))
    res.notes.append("raw ratio producers (inferred): %s" % sorted(RAW_RATIO))
    found = 0
    for name in ENTRY_POINTS:
        fn = prog.func(name)
        if fn is None:
            continue
        found += 1
        stat.sites += 1
        rets = analyse(fn)
        for e, t in sorted(rets.items()):
            stat.obligations += 1
            if not t:
                stat.discharged += 1
            else:
                what = "bignum" if "big" in t else "ratio"
                res.add(Finding("C04", "C04.unnormalized-result", name, fn.txt(e)[:70], fn.where(e),
                                "%s can return a raw %s (from a producer such as sexp_bignum_add / sexp_make_ratio) that did not "
                                "pass through %s: an integer that fits a fixnum stays a bignum (or a ratio is not in lowest "
                                "terms), so numerically equal exact results are no longer eqv?"
                                % (name, what, "sexp_bignum_normalize" if what == "bignum" else "sexp_ratio_normalize"),
                                unit=fn.unit.display))
        stat.sample({"function": name, "returns": len(rets), "where": fn.where()}, limit=4)
    if found < 8:
        raise AnalysisBroken("anchor vanished: only %d of the arithmetic entry points exist" % found)
    return stat
