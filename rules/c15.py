"""C15 - equal? / hash coherence: structural clauses.

a. representation-hashing only where equality is representational: the heap tags for which
   sexp_equalp_bound returns through a *semantic* comparator (a call) before its generic
   raw-layout comparison must be disjoint from the tags whose raw trailing bytes hash_one
   feeds into the hash.
b. both recursions are depth bounded (rules/recursion.py).
"""
import tables
from kinds import KindModel, KindAnalysis
from report import Finding
from extract import AnalysisBroken


def semantic_equal_tags(prog, model):
    """tags of `a` at the returns of sexp_equalp_bound whose value depends on a call
    to a comparator (not on the generic memcmp / slot loop)"""
    fn = prog.func("sexp_equalp_bound")
    if fn is None:
        raise AnalysisBroken("anchor vanished: sexp_equalp_bound")
    a = [v for v in fn.params if fn.vars[v]["n"] == "a"]
    b = [v for v in fn.params if fn.vars[v]["n"] == "b"]
    if not a or not b:
        raise AnalysisBroken("anchor vanished: parameters a/b of sexp_equalp_bound")
    ka = KindAnalysis(model, fn, {a[0]: model.U, b[0]: model.U})
    ka.sticky = {a[0], b[0]}
    aref = None
    for i, nd in enumerate(fn.nodes):
        if nd["k"] == "ref" and nd.get("d") == a[0]:
            aref = i
            break
    rets = {}
    for i, nd in enumerate(fn.nodes):
        if nd["k"] == "ret" and nd.get("c"):
            calls = [c for c in fn.calls_in(nd["c"][0]) if fn.nodes[c].get("o") and
                     fn.nodes[c]["o"] not in ("memcmp", "sexp_equalp_bound")]
            # the comparator must take both operands
            calls = [c for c in calls if a[0] in fn.refs_in(c) and b[0] in fn.refs_in(c)]
            if calls:
                ka.probes[i] = aref
                rets[i] = fn.nodes[calls[0]]["o"]
    ka.run()
    out = {}
    for i, comp in rets.items():
        ks = ka.probe_results.get(i)
        if ks is None:
            continue
        for k in ks:
            if model.tag_num(k) is not None:
                out[k] = (comp, fn.where(i))
    return out, fn


def _folds_bytes_of_param(prog, callee):
    """a helper of hash.c that accumulates `P[i]` for a char* parameter P"""
    g = prog.func(callee or "")
    if g is None or not g.blocks or g.unit.name != "hash.c" or callee == "hash_one":
        return False
    cps = {g.vars[v]["n"] for v in g.params if (g.var_type(v) or "").replace("const ", "") in
           ("char *", "unsigned char *", "signed char *")}
    if not cps:
        return False
    for nd in g.nodes:
        if nd["k"] == "bin" and nd["o"] in ("^=", "+=", "*=", "|=", "="):
            for x in g.subtree(g.strip(nd["c"][1])):
                xn = g.nodes[x]
                if xn["k"] == "idx" and g.txt(g.strip(xn["c"][0])) in cps:
                    return True
    return False


def raw_hashed_tags(prog, model):
    """tags of `obj` at the statements of hash_one that fold raw trailing bytes into the hash"""
    fn = prog.func("hash_one")
    if fn is None:
        raise AnalysisBroken("anchor vanished: hash_one")
    o = [v for v in fn.params if fn.vars[v]["n"] == "obj"]
    if not o:
        raise AnalysisBroken("anchor vanished: parameter obj of hash_one")
    ka = KindAnalysis(model, fn, {o[0]: model.U})
    ka.sticky = {o[0]}
    oref = None
    for i, nd in enumerate(fn.nodes):
        if nd["k"] == "ref" and nd.get("d") == o[0]:
            oref = i
            break
    sites = []
    for i, nd in enumerate(fn.nodes):
        # acc ^= P[i] where P is a char* computed from the object's extent
        if nd["k"] == "bin" and nd["o"] in ("^=", "+=", "*=", "|="):
            rhs = fn.strip(nd["c"][1])
            for x in fn.subtree(rhs):
                xn = fn.nodes[x]
                if xn["k"] == "idx":
                    bt = fn.type(xn["c"][0]) or ""      # type of the indexed pointer as written (casts kept)
                    if bt in ("char *", "unsigned char *", "signed char *"):
                        ka.probes[i] = oref
                        sites.append(i)
    # ... or a call that hands such a pointer to a helper which folds the bytes behind one of its char* parameters
    for i, nd in enumerate(fn.nodes):
        if nd["k"] == "call" and _folds_bytes_of_param(prog, nd.get("o")):
            ka.probes[i] = oref
            sites.append(i)
    if not sites:
        raise AnalysisBroken("anchor vanished: hash_one no longer folds raw bytes (rule C15.a needs re-reading)")
    ka.run()
    out = {}
    for i in sites:
        ks = ka.probe_results.get(i)
        if ks is None:
            continue
        for k in ks:
            if model.tag_num(k) is not None:
                out[k] = fn.where(i)
    return out, fn


def run_a(prog, res):
    stat = res.stat("C15.a", "tags compared by a semantic comparator in equal? vs. tags whose raw trailing bytes "
                    "hash_one hashes: must be disjoint", floor=1)
    model = KindModel(prog)
    sem, efn = semantic_equal_tags(prog, model)
    raw, hfn = raw_hashed_tags(prog, model)
    if not sem:
        raise AnalysisBroken("sexp_equalp_bound has no semantic-comparator return (anchor for C15.a vanished)")
    stat.sites += len(sem) + len(raw)
    for k, (comp, where) in sorted(sem.items()):
        stat.obligations += 1
        name = model.tagname.get(model.tag_num(k), k)
        if k in raw:
            res.add(Finding("C15", "C15.a.raw-hash-of-semantic-type", "hash_one", name, raw[k],
                            "hash_one folds the raw trailing bytes of a %s into the hash (%s), but equal? compares %s objects "
                            "with %s (%s), not by representation: two equal? values can hash differently and a hash table "
                            "misses the key" % (name, raw[k], name, comp, where), unit=hfn.unit.display))
        else:
            stat.discharged += 1
            stat.sample({"tag": name, "equal?": "%s at %s" % (comp, where), "hash": "not hashed by representation"})
    res.notes.append("hash_one hashes raw trailing bytes for: %s" % sorted(model.tagname.get(model.tag_num(k), k) for k in raw))
    return stat


def run_c(prog, res):
    """hash_one never folds the address of a heap object into a structural hash"""
    stat = res.stat("C15.c", "hash_one folds the machine word of a value into the hash only where the value is an immediate",
                    floor=1)
    model = KindModel(prog)
    fn = prog.func("hash_one")
    o = [v for v in fn.params if fn.vars[v]["n"] == "obj"]
    if not o:
        raise AnalysisBroken("anchor vanished: parameter obj of hash_one")
    ka = KindAnalysis(model, fn, {o[0]: model.U})
    ka.sticky = {o[0]}
    sites = []
    for i, nd in enumerate(fn.nodes):
        if nd["k"] == "bin" and nd["o"] in ("^=", "+=", "*=", "|=", "="):
            rhs = nd["c"][1]
            for x in fn.subtree(rhs):
                xn = fn.nodes[x]
                # an integer cast applied directly to a sexp-typed expression: the value's own word
                if xn["k"] == "cast" and not (fn.type(x) or "").endswith("*"):
                    inner = fn.strip(xn["c"][0])
                    if fn.type(inner) == tables.SEXP_T and fn.nodes[inner]["k"] == "ref" and fn.nodes[inner].get("d") == o[0]:
                        lhs = fn.strip(nd["c"][0])
                        if fn.nodes[lhs]["k"] == "ref" and fn.vars[fn.nodes[lhs]["d"]]["n"] == "acc":
                            ka.probes[i] = inner
                            sites.append(i)
    if not sites:
        raise AnalysisBroken("anchor vanished: hash_one no longer hashes immediates by their word")
    ka.run()
    for i in sites:
        stat.sites += 1
        stat.obligations += 1
        ks = ka.probe_results.get(i)
        heap = sorted(k for k in (ks or []) if not k.startswith("i:"))
        if ks is not None and not heap:
            stat.discharged += 1
            stat.sample({"site": fn.where(i), "statement": fn.txt(i)[:60], "kinds": model.describe(ks)})
        else:
            res.add(Finding("C15", "C15.c.address-hashed", "hash_one", fn.txt(i)[:60], fn.where(i),
                            "hash_one folds the machine word of `obj` into the hash on a path where obj may be a heap object "
                            "(%s): the hash then depends on the allocation address, so two equal? values built separately "
                            "hash differently" % model.describe(frozenset(heap))[:80], unit=fn.unit.display))
    return stat


def run_d(prog, res):
    """entry-count accounting of the C hash table: the size slot is updated on exactly the
    paths that link or unlink an entry of a bucket chain"""
    from cfg import PathExplorer
    stat = res.stat("C15.d", "(srfi 69) C primitives: a path stores the table's size slot iff it links/unlinks a chain entry",
                    floor=2)
    u = prog.unit("hash.c")
    if u is None:
        raise AnalysisBroken("anchor vanished: lib/srfi/69/hash.c")
    for fn in u.functions.values():
        htv = [v for v in fn.params if fn.vars[v]["n"] == "ht"]
        if not htv:
            continue
        htv = htv[0]
        # locals loaded from slot 0 of ht (the bucket vector)
        bucket_vars = set()
        size_stores, chain_stores = set(), set()

        def slot_of_ht(n):
            """((sexp*)&ht->value)[k] -> k"""
            n = fn.strip(n)
            nd = fn.nodes[n]
            if nd["k"] == "idx":
                base = fn.strip(nd["c"][0])
                bn = fn.nodes[base]
                if bn["k"] == "un" and bn["o"] == "&":
                    m = fn.strip(bn["c"][0])
                    if fn.nodes[m]["k"] == "mem" and fn.nodes[m]["o"] == "value":
                        r = fn.strip(fn.nodes[m]["c"][0])
                        if fn.nodes[r]["k"] == "ref" and fn.nodes[r].get("d") == htv:
                            return fn.const_val(nd["c"][1])
            return None

        for i, nd in enumerate(fn.nodes):
            if nd["k"] == "bin" and nd["o"] == "=":
                l = fn.strip(nd["c"][0])
                if fn.nodes[l]["k"] == "ref" and "d" in fn.nodes[l] and slot_of_ht(nd["c"][1]) == 0:
                    bucket_vars.add(fn.nodes[l]["d"])
        for i, nd in enumerate(fn.nodes):
            if nd["k"] != "bin" or nd["o"] != "=":
                continue
            l = fn.strip(nd["c"][0])
            ln = fn.nodes[l]
            if slot_of_ht(l) == 1:
                size_stores.add(i)
            elif ln["k"] == "idx" and (fn.refs_in(ln["c"][0]) & bucket_vars):
                chain_stores.add(i)
            elif ln["k"] == "mem" and ln["o"] == "cdr":
                chain_stores.add(i)
        if not size_stores:
            continue
        stat.sites += 1
        stat.obligations += 1
        bad = []

        def transfer(bid, e, st):
            if e in size_stores:
                return [(True, st[1])]
            if e in chain_stores:
                return [(st[0], True)]
            return None

        def at_exit(bid, st, key):
            if st[0] != st[1]:
                bad.append((st, key))

        ex = PathExplorer(fn, transfer, None, at_exit)
        ex.run((False, False))
        if not bad:
            stat.discharged += 1
            stat.sample({"function": fn.name, "size_stores": len(size_stores), "chain_stores": len(chain_stores),
                         "verdict": "paired on every path"})
        else:
            st, key = bad[0]
            res.add(Finding("C15", "C15.d.size-accounting", fn.name,
                            "size %s, chain %s" % ("updated" if st[0] else "not updated", "modified" if st[1] else "not modified"),
                            fn.where(), "%s has a path that %s the table's size slot but %s a bucket chain: hash-table-size and "
                            "the resize policy drift away from the real number of entries" %
                            (fn.name, "updates" if st[0] else "does not update", "modifies" if st[1] else "does not modify"),
                            unit=fn.unit.display, path=["B%s" % b for b in ex.path_to(key)]))
    return stat


# ------------------------------------------------------------------ C15.e
def run_e(prog, res, floor=1):
    """work-budget threading: a self-recursive function that returns (what is left of) one of its own
    parameters and passes that parameter on in the same position must store the result of every such
    recursive call back into the parameter (or return it at once) - otherwise the work done in the
    sub-call is not charged and the 'limit reached' answer of the sub-call is lost"""
    stat = res.stat("C15.e", "self-recursive functions that return what is left of a budget parameter write every recursive "
                    "call's result back into that parameter", floor=floor)
    for fn in prog.all_funcs():
        if not fn.blocks or fn.name not in ("sexp_equalp_bound", "hash_one") and not fn.name.endswith("_bound"):
            continue
        calls = [i for i, nd in enumerate(fn.nodes) if nd["k"] == "call" and nd.get("o") == fn.name]
        if not calls:
            continue
        rets = [fn.strip(nd["c"][0]) for nd in fn.nodes if nd["k"] == "ret" and nd.get("c")]
        for k, vid in enumerate(fn.params):
            # the parameter is returned (as such, or as an arm of a conditional) ...
            def returns_p(r):
                rn = fn.nodes[r]
                if rn["k"] == "ref":
                    return rn.get("d") == vid
                if rn["k"] == "cond":
                    return returns_p(fn.strip(rn["c"][1])) or returns_p(fn.strip(rn["c"][2]))
                return False
            if not any(returns_p(r) for r in rets):
                continue
            # ... and handed on in its own position
            passing = []
            for c in calls:
                args = fn.nodes[c]["c"][1:]
                if k < len(args):
                    a = fn.strip(args[k])
                    if fn.nodes[a]["k"] == "ref" and fn.nodes[a].get("d") == vid:
                        passing.append(c)
            if not passing:
                continue
            pname = fn.vars[vid]["n"]
            for c in passing:
                stat.sites += 1
                stat.obligations += 1
                p = fn.parent(c)
                x = c
                while p is not None and fn.nodes[p]["k"] in ("paren", "cast"):
                    x, p = p, fn.parent(p)
                ok = False
                if p is not None:
                    pn = fn.nodes[p]
                    if pn["k"] == "ret":
                        ok = True
                    elif pn["k"] == "bin" and pn["o"] == "=" and pn["c"][1] == x:
                        l = fn.strip(pn["c"][0])
                        ok = fn.nodes[l]["k"] == "ref" and fn.nodes[l].get("d") == vid
                if ok:
                    stat.discharged += 1
                    stat.sample({"function": fn.name, "budget": pname, "where": fn.where(c)})
                else:
                    res.add(Finding("C15", "C15.e.budget-not-threaded", fn.name, "budget %s" % pname, fn.where(c),
                                    "%s returns what is left of `%s` and passes `%s` to its recursive call here, but does not "
                                    "store the call's result back into `%s`: the work done in the sub-comparison is not charged "
                                    "(exponential time on shared structure, no termination on cycles through this slot) and a "
                                    "'limit reached' answer of the sub-call is taken for 'equal'" %
                                    (fn.name, pname, pname, pname), unit=fn.unit.display))
    return stat


def run_f(prog, res, floor=1):
    """equal? and the hash walk the same slots: both compute how many slots of an object take part from the type
    table, and the columns they read for that (`field_base`, `field_len_*`, `field_eq_len_base`) must be the same
    set - hashing a slot that equal? ignores (the source annotation of a pair, say) gives equal? keys different
    hashes"""
    from extract import AnalysisBroken
    stat = res.stat("C15.f", "hash_one and sexp_equalp_bound read the same type-table columns to decide which slots take part",
                    floor=floor)
    cols = {}
    for name in ("hash_one", "sexp_equalp_bound"):
        fn = prog.func(name)
        if fn is None:
            raise AnalysisBroken("anchor vanished: %s" % name)
        fs = set()
        for i, nd in enumerate(fn.nodes):
            if nd["k"] == "mem":
                _r, p = fn.mempath(i)
                if len(p) >= 3 and p[:2] == ["value", "type"] and p[2].startswith("field_"):
                    fs.add(p[2])
        cols[name] = (fn, fs)
    stat.sites += 2
    stat.obligations += 1
    h, e = cols["hash_one"][1], cols["sexp_equalp_bound"][1]
    if h == e and h:
        stat.discharged += 1
        stat.sample({"columns": sorted(h)})
    else:
        fn = cols["hash_one"][0]
        res.add(Finding("C15", "C15.f.slot-columns-differ", "hash_one", "type columns", fn.where(),
                        "hash_one decides which slots of an object it hashes from the type columns %s, sexp_equalp_bound which slots it "
                        "compares from %s: a slot that only one of them visits makes equal? objects hash differently (or unequal "
                        "ones collide systematically)" % (sorted(h), sorted(e)), unit=fn.unit.display))
    return stat


# ------------------------------------------------------------------ C15.g
def run_g(prog, res, floor=3, units=("hash.c",)):
    """a chain is walked through the link that is still there: where a bucket-chain traversal advances its cursor by
    reading a field of the cell it stands on (`ls = sexp_cdr(ls)`), no store to that same field of that same cursor
    (`sexp_cdr(ls) = E`, E not built from the old link) may reach the advance without the cursor being re-assigned in
    between - the walk would continue in whatever list E is, and the rest of the chain is never visited (a resize
    that relinks cells this way drops every entry but the first of each bucket).  Saving the link first
    (`next = sexp_cdr(ls); ...; ls = next`) and inserting behind the cursor (`sexp_cdr(ls) = cons(x, sexp_cdr(ls))`)
    are the accepted forms, and so is appending a freshly made cell and stepping onto it
    (`sexp_cdr(tail) = sexp_cons(...); tail = sexp_cdr(tail)`)."""
    from cfg import elem_positions, enclosing_elem, reach_without
    stat = res.stat("C15.g", "hash-table chain walks that advance through a field of the current cell: no store to that field of the "
                    "cursor reaches the advance", floor=floor)

    def field_of_var(fn, n):
        """(var id, path) if node n is `v->...field` on a plain local / parameter v"""
        n = fn.strip(n)
        if fn.nodes[n]["k"] != "mem":
            return None
        root, path = fn.mempath(n)
        r = fn.strip(root)
        if fn.nodes[r]["k"] == "ref" and "d" in fn.nodes[r] and path:
            return (fn.nodes[r]["d"], tuple(path))
        return None

    def reads_field(fn, n, key):
        st = [n]
        while st:
            x = st.pop()
            if field_of_var(fn, x) == key:
                return True
            st.extend(fn.nodes[x].get("c", ()))
        return False
    for fn in prog.all_funcs():
        if fn.unit.name not in units or not fn.blocks:
            continue
        advances, stores, assigns = [], [], {}
        for i, nd in enumerate(fn.nodes):
            if nd["k"] != "bin" or nd["o"] != "=":
                continue
            l = fn.strip(nd["c"][0])
            if fn.nodes[l]["k"] == "ref" and "d" in fn.nodes[l]:
                v = fn.nodes[l]["d"]
                assigns.setdefault(v, []).append(i)
                key = field_of_var(fn, nd["c"][1])
                if key is not None and key[0] == v:
                    advances.append((i, key))
            else:
                key = field_of_var(fn, l)
                r0 = fn.strip(nd["c"][1])
                if key is not None and not reads_field(fn, nd["c"][1], key) and fn.nodes[r0]["k"] != "call":
                    stores.append((i, key))      # (a call result is a fresh cell: append-at-the-tail, then step onto it)
        if not advances:
            continue
        pos = elem_positions(fn)
        for (a, key) in advances:
            stat.sites += 1
            stat.obligations += 1
            pa = enclosing_elem(fn, a, pos)
            kills = {enclosing_elem(fn, j, pos) for j in assigns.get(key[0], ()) if j != a} - {None}
            bad = None
            for (s, k2) in stores:
                if k2 != key:
                    continue
                ps = enclosing_elem(fn, s, pos)
                if ps is None or pa is None or ps == pa:
                    continue
                if reach_without(fn, ps, pa, kills):
                    bad = s
                    break
            if bad is None:
                stat.discharged += 1
                stat.sample({"function": fn.name, "advance": fn.txt(a)[:60], "where": fn.where(a)}, limit=6)
            else:
                res.add(Finding("C15", "C15.g.walk-through-overwritten-link", fn.name, "%s" % fn.txt(a)[:60], fn.where(bad),
                                "%s overwrites `%s` (%s) and then advances its cursor through that very field (%s): the walk "
                                "continues in the list just stored, the remaining cells of the chain are never visited - a hash "
                                "table that moves its entries this way loses every entry of a bucket but the first when it grows"
                                % (fn.name, fn.txt(fn.nodes[bad]["c"][0])[:50], fn.where(bad), fn.where(a)),
                                unit=fn.unit.display))
    return stat
