"""C15 - equal? / hash coherence: structural clauses.

a. representation-hashing only where equality is representational: the heap tags for which
   sexp_equalp_bound returns through a *semantic* comparator (a call) before its generic
   raw-layout comparison must be disjoint from the tags whose raw trailing bytes hash_one
   feeds into the hash.
b. both recursions are depth bounded (rules/recursion.py).
"""
import tables
from kinds import KindModel, KindAnalysis
from report import Finding
from extract import AnalysisBroken


def semantic_equal_tags(prog, model):
    """tags of `a` at the returns of sexp_equalp_bound whose value depends on a call
    to a comparator (not on the generic memcmp / slot loop)"""
    fn = prog.func("sexp_equalp_bound")
    if fn is None:
        raise AnalysisBroken("anchor vanished: sexp_equalp_bound")
    a = [v for v in fn.params if fn.vars[v]["n"] == "a"]
    b = [v for v in fn.params if fn.vars[v]["n"] == "b"]
    if not a or not b:
        raise AnalysisBroken("anchor vanished: parameters a/b of sexp_equalp_bound")
    ka = KindAnalysis(model, fn, {a[0]: model.U, b[0]: model.U})
    ka.sticky = {a[0], b[0]}
    aref = None
    for i, nd in enumerate(fn.nodes):
        if nd["k"] == "ref" and nd.get("d") == a[0]:
            aref = i
            break
    rets = {}
    for i, nd in enumerate(fn.nodes):
        if nd["k"] == "ret" and nd.get("c"):
            calls = [c for c in fn.calls_in(nd["c"][0]) if fn.nodes[c].get("o") and
                     fn.nodes[c]["o"] not in ("memcmp", "sexp_equalp_bound")]
            # the comparator must take both operands
            calls = [c for c in calls if a[0] in fn.refs_in(c) and b[0] in fn.refs_in(c)]
            if calls:
                ka.probes[i] = aref
                rets[i] = fn.nodes[calls[0]]["o"]
    ka.run()
    out = {}
    for i, comp in rets.items():
        ks = ka.probe_results.get(i)
        if ks is None:
            continue
        for k in ks:
            if model.tag_num(k) is not None:
                out[k] = (comp, fn.where(i))
    return out, fn


def raw_hashed_tags(prog, model):
    """tags of `obj` at the statements of hash_one that fold raw trailing bytes into the hash"""
    fn = prog.func("hash_one")
    if fn is None:
        raise AnalysisBroken("anchor vanished: hash_one")
    o = [v for v in fn.params if fn.vars[v]["n"] == "obj"]
    if not o:
        raise AnalysisBroken("anchor vanished: parameter obj of hash_one")
    ka = KindAnalysis(model, fn, {o[0]: model.U})
    ka.sticky = {o[0]}
    oref = None
    for i, nd in enumerate(fn.nodes):
        if nd["k"] == "ref" and nd.get("d") == o[0]:
            oref = i
            break
    sites = []
    for i, nd in enumerate(fn.nodes):
        # acc ^= P[i] where P is a char* computed from the object's extent
        if nd["k"] == "bin" and nd["o"] in ("^=", "+=", "*=", "|="):
            rhs = fn.strip(nd["c"][1])
            for x in fn.subtree(rhs):
                xn = fn.nodes[x]
                if xn["k"] == "idx":
                    bt = fn.type(xn["c"][0]) or ""      # type of the indexed pointer as written (casts kept)
                    if bt in ("char *", "unsigned char *", "signed char *"):
                        ka.probes[i] = oref
                        sites.append(i)
    if not sites:
        raise AnalysisBroken("anchor vanished: hash_one no longer folds raw bytes (rule C15.a needs re-reading)")
    ka.run()
    out = {}
    for i in sites:
        ks = ka.probe_results.get(i)
        if ks is None:
            continue
        for k in ks:
            if model.tag_num(k) is not None:
                out[k] = fn.where(i)
    return out, fn


def run_a(prog, res):
    stat = res.stat("C15.a", "tags compared by a semantic comparator in equal? vs. tags whose raw trailing bytes "
                    "hash_one hashes: must be disjoint", floor=1)
    model = KindModel(prog)
    sem, efn = semantic_equal_tags(prog, model)
    raw, hfn = raw_hashed_tags(prog, model)
    if not sem:
        raise AnalysisBroken("sexp_equalp_bound has no semantic-comparator return (anchor for C15.a vanished)")
    stat.sites += len(sem) + len(raw)
    for k, (comp, where) in sorted(sem.items()):
        stat.obligations += 1
        name = model.tagname.get(model.tag_num(k), k)
        if k in raw:
            res.add(Finding("C15", "C15.a.raw-hash-of-semantic-type", "hash_one", name, raw[k],
                            "hash_one folds the raw trailing bytes of a %s into the hash (%s), but equal? compares %s objects "
                            "with %s (%s), not by representation: two equal? values can hash differently and a hash table "
                            "misses the key" % (name, raw[k], name, comp, where), unit=hfn.unit.display))
        else:
            stat.discharged += 1
            stat.sample({"tag": name, "equal?": "%s at %s" % (comp, where), "hash": "not hashed by representation"})
    res.notes.append("hash_one hashes raw trailing bytes for: %s" % sorted(model.tagname.get(model.tag_num(k), k) for k in raw))
    return stat
