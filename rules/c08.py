"""C08 - external representations: the escape-letter and character-name tables of the two
writers and two readers agree (rule family F5; C sides from cfacts, Scheme sides from slint)."""
import os

import slint
import tables
from slint import Lst, Sym, Char, Str, Num, head
from report import Finding
from extract import AnalysisBroken, REPO


def native_char_names(prog):
    g = tables.find_global(prog, "sexp_char_names", "sexp.c")
    root = g.nodes[g.init_root]
    out = {}
    for r in root["c"]:
        rn = g.nodes[r]
        if rn["k"] != "init" or len(rn["c"]) != 2:
            raise AnalysisBroken("sexp_char_names row shape changed")
        n = g.nodes[g.strip(rn["c"][0])]
        v = g.const_val(rn["c"][1])
        if n["k"] != "str" or v is None:
            raise AnalysisBroken("sexp_char_names row is not {string, constant}")
        out[n["s"]] = v & 0xFF
    return out, "sexp.c:%d" % g.line0


def _switch_on(fn, pred):
    """switch blocks whose condition satisfies pred(node)"""
    return [b for b in fn.blocks.values() if b.term == "SwitchStmt" and b.cond is not None and pred(fn.strip(b.cond))]


def native_writer_escapes(prog):
    """char code -> escape letter, from the string arm of sexp_write_one"""
    fn = prog.func("sexp_write_one")
    if fn is None:
        raise AnalysisBroken("anchor vanished: sexp_write_one")
    out = {}
    where = None
    for sw in _switch_on(fn, lambda c: fn.nodes[c]["k"] == "idx" and fn.const_val(fn.nodes[c]["c"][1]) == 0):
        cand = {}
        for s in sw.succs:
            if s is None or s < 0:
                continue
            sb = fn.blocks[s]
            if sb.lk != "case" or sb.clo is None:
                continue
            # the write macro may expand over several blocks: walk this arm up to its break
            seen = set()
            st = [s]
            while st:
                bid = st.pop()
                if bid in seen or len(seen) > 12:
                    continue
                seen.add(bid)
                bb = fn.blocks[bid]
                for e in bb.elems:
                    nd = fn.nodes[e]
                    if nd["k"] == "str" and len(nd.get("s", "")) == 2 and nd["s"][0] == "\\":
                        cand[sb.clo & 0xFF] = nd["s"][1]
                if bb.term == "BreakStmt":
                    continue
                for nx in bb.succs:
                    if nx is not None and nx >= 0 and fn.blocks[nx].lk not in ("case", "default"):
                        st.append(nx)
        if len(cand) > len(out):
            out = cand
            where = "sexp.c:%d" % sw.line
    if len(out) < 3:
        raise AnalysisBroken("anchor vanished: the string-escape switch of the native writer")
    return out, where


def native_reader_escapes(prog):
    """escape letter -> char code, from sexp_read_string"""
    fn = prog.func("sexp_read_string")
    if fn is None:
        raise AnalysisBroken("anchor vanished: sexp_read_string")
    best = {}
    where = None
    for sw in _switch_on(fn, lambda c: fn.nodes[c]["k"] == "ref"):
        cv = fn.nodes[fn.strip(sw.cond)].get("d")
        cand = {}
        for s in sw.succs:
            if s is None or s < 0:
                continue
            sb = fn.blocks[s]
            if sb.lk != "case" or sb.clo is None or sb.chi not in (None, sb.clo):
                continue
            for e in sb.elems:
                nd = fn.nodes[e]
                if nd["k"] == "bin" and nd["o"] == "=":
                    lhs = fn.strip(nd["c"][0])
                    if fn.nodes[lhs]["k"] == "ref" and fn.nodes[lhs].get("d") == cv:
                        v = fn.const_val(nd["c"][1])
                        if v is not None and len(sb.elems) <= 6:
                            cand[chr(sb.clo)] = v & 0xFF
        if len(cand) > len(best):
            best = cand
            where = "sexp.c:%d" % sw.line
    if len(best) < 3:
        raise AnalysisBroken("anchor vanished: the escape switch of the native string reader")
    return best, where


def _find_define(forms, name):
    for f in forms:
        if isinstance(f, Lst) and head(f) == "define" and len(f) >= 3:
            if isinstance(f[1], Sym) and f[1] == name:
                return f[2], f
            if isinstance(f[1], Lst) and f[1] and f[1][0] == name:
                return f, f
    return None, None


def _find_nested(form, name):
    """a (define (name ...) ...) nested anywhere"""
    st = [form]
    while st:
        x = st.pop()
        if isinstance(x, Lst):
            if head(x) == "define" and len(x) >= 3 and isinstance(x[1], Lst) and x[1] and x[1][0] == name:
                return x
            st.extend(x)
    return None


def srfi38_tables(root, names):
    path = os.path.join(root or REPO, "lib", "srfi", "38.scm")
    if not os.path.exists(path):
        raise AnalysisBroken("anchor vanished: lib/srfi/38.scm")
    forms = slint.read_file(path)

    def char_code(x):
        if isinstance(x, Char):
            s = str(x)
            if len(s) == 1:
                return ord(s)
            if s in names:
                return names[s]
            if s[0] in "xX" and len(s) > 1:
                try:
                    return int(s[1:], 16)
                except ValueError:
                    pass
            return ("unknown-name", s)
        if isinstance(x, Lst) and len(x) == 2 and head(x) == "unquote":
            return char_code(x[1])
        if isinstance(x, Lst) and len(x) == 2 and head(x) == "integer->char" and isinstance(x[1], Num):
            return int(x[1])
        return ("unreadable", repr(x)[:30])

    def unq(x):
        if isinstance(x, Lst) and head(x) in ("quote", "quasiquote") and len(x) == 2:
            return x[1]
        return x

    wtab, wform = _find_define(forms, "escaped-chars")
    rtab, rform = _find_define(forms, "named-chars")
    if wtab is None or rtab is None:
        raise AnalysisBroken("anchor vanished: escaped-chars / named-chars in lib/srfi/38.scm")
    writer_names = {}
    for ent in unq(wtab):
        if isinstance(ent, Lst) and ent.tail is not None and len(ent) == 1:
            writer_names[str(ent.tail)] = char_code(ent[0])
    reader_names = {}
    for ent in unq(rtab):
        if isinstance(ent, Lst) and ent.tail is not None and len(ent) == 1:
            reader_names[str(ent[0])] = char_code(ent.tail)
    esc = None
    for f in forms:
        esc = _find_nested(f, "read-escape-sequence")
        if esc is not None:
            break
    if esc is None:
        raise AnalysisBroken("anchor vanished: read-escape-sequence in lib/srfi/38.scm")
    reader_esc = {}
    st = [esc]
    while st:
        x = st.pop()
        if isinstance(x, Lst):
            if head(x) == "case":
                for cl in x[2:]:
                    if isinstance(cl, Lst) and len(cl) == 2 and isinstance(cl[0], Lst) and isinstance(cl[1], Char):
                        for k in cl[0]:
                            if isinstance(k, Char) and len(str(k)) == 1:
                                reader_esc[str(k)] = char_code(cl[1])
            st.extend(x)
    return writer_names, reader_names, reader_esc, "lib/srfi/38.scm"


def run(prog, res, root=None):
    stat = res.stat("C08.tables", "string escape letters and #\\\\name tables of native writer/reader and SRFI-38 writer/reader agree",
                    floor=14)
    names, nwhere = native_char_names(prog)
    wesc, wwhere = native_writer_escapes(prog)
    resc, rwhere = native_reader_escapes(prog)
    s38w, s38r, s38esc, swhere = srfi38_tables(root or getattr(prog, "root", None), names)

    def viol(rule, disc, where, msg):
        res.add(Finding("C08", rule, "escape tables", disc, where, msg, unit=where.split(":")[0]))

    # 1. native writer -> both readers
    for c, letter in sorted(wesc.items()):
        if letter in ('\\', '"'):
            continue
        stat.sites += 1
        stat.obligations += 2
        if resc.get(letter) == c:
            stat.discharged += 1
        else:
            viol("C08.escape-roundtrip", "native \\%s" % letter, wwhere,
                 "the native writer escapes character %d as \\%s, but the native string reader maps \\%s to %s: "
                 "write followed by read yields a different string" % (c, letter, letter, resc.get(letter, "itself")))
        if s38esc.get(letter) == c:
            stat.discharged += 1
        else:
            viol("C08.escape-roundtrip", "srfi38 \\%s" % letter, swhere,
                 "the native writer (used by (scheme write) for strings) escapes character %d as \\%s, but the (scheme read) "
                 "reader maps \\%s to %s" % (c, letter, letter, s38esc.get(letter, "itself")))
    # 2. the two readers accept the same escape letters
    for letter in sorted(set(resc) | set(s38esc)):
        if letter in ("x", "X"):
            continue
        stat.sites += 1
        stat.obligations += 1
        if resc.get(letter) == s38esc.get(letter):
            stat.discharged += 1
            stat.sample({"escape": "\\" + letter, "char": resc.get(letter), "native_reader": rwhere, "srfi38_reader": swhere}, limit=3)
        else:
            viol("C08.reader-disagreement", "\\%s" % letter, swhere,
                 "escape \\%s reads as %s in the native reader but as %s in the (scheme read) reader: the two readers do not "
                 "yield equal data for the same text" % (letter, resc.get(letter, "the letter itself"), s38esc.get(letter, "the letter itself")))
    # 3. character names
    allnames = set(names) | set(s38w) | set(s38r)
    for n in sorted(allnames):
        stat.sites += 1
        stat.obligations += 1
        vals = {"native": names.get(n), "srfi38-writer": s38w.get(n), "srfi38-reader": s38r.get(n)}
        if len(set(vals.values())) == 1:
            stat.discharged += 1
            stat.sample({"char_name": n, "code": names.get(n)}, limit=3)
        else:
            viol("C08.char-name-tables", "#\\%s" % n, swhere if vals["native"] is not None else nwhere,
                 "character name %s: native table -> %s, SRFI-38 writer table -> %s, SRFI-38 reader table -> %s; the four "
                 "implementations must accept and emit the same names for the same characters" %
                 (n, vals["native"], vals["srfi38-writer"], vals["srfi38-reader"]))
    return stat


# ------------------------------------------------------------------ C08.b: UTF-8 assembly
def _pack_terms(fn, n, out):
    """flatten a chain of + / | into its terms"""
    n = fn.strip(n)
    nd = fn.nodes[n]
    if nd["k"] == "bin" and nd["o"] in ("+", "|"):
        _pack_terms(fn, nd["c"][0], out)
        _pack_terms(fn, nd["c"][1], out)
    else:
        out.append(n)


def _masked_shift(fn, n):
    """(X & M) << S  ->  (M, S);  (X & M) -> (M, 0); else None"""
    n = fn.strip(n)
    nd = fn.nodes[n]
    s = 0
    if nd["k"] == "bin" and nd["o"] == "<<":
        s = fn.const_val(nd["c"][1])
        if s is None:
            return None
        n = fn.strip(nd["c"][0])
        nd = fn.nodes[n]
    if nd["k"] == "bin" and nd["o"] == "&":
        for a, b in ((0, 1), (1, 0)):
            m = fn.const_val(nd["c"][b])
            if m is not None and fn.const_val(nd["c"][a]) is None:
                return (m, s)
    return None


def run_utf8(prog, res, floor=4, units=("sexp.c", "eval.c", "io.c", "port.c")):
    """the decoders that assemble a code point from UTF-8 bytes pack 6-bit fields: in a sum of masked and
    shifted bytes with continuation masks (0x3F) the shifts are pairwise distinct multiples of 6, and a complete
    assembly of n bytes (one that includes the unshifted last byte) uses exactly 0, 6, ..., 6(n-1).  Two readers
    that disagree on one width class read the same text as different characters."""
    stat = res.stat("C08.b", "UTF-8 assembling expressions use the shifts 6(n-1) ... 6, 0 (pairwise distinct multiples of 6)",
                    floor=floor)
    for fn in prog.all_funcs():
        if fn.unit.name not in units or not fn.blocks:
            continue
        seen = set()
        for i, nd in enumerate(fn.nodes):
            if nd["k"] != "bin" or nd["o"] not in ("+", "|") or i in seen:
                continue
            par = fn.parent(i)
            while par is not None and fn.nodes[par]["k"] == "cast":
                par = fn.parent(par)
            if par is not None and fn.nodes[par]["k"] == "bin" and fn.nodes[par]["o"] in ("+", "|"):
                continue        # not the top of the chain
            terms = []
            _pack_terms(fn, i, terms)
            ms = [_masked_shift(fn, t) for t in terms]
            if len(terms) < 2 or any(m is None for m in ms) or sum(1 for (m, s) in ms if m == 0x3F) < 1 \
                    or not any(s for (m, s) in ms):
                continue
            stat.sites += 1
            stat.obligations += 1
            shifts = sorted(s for (m, s) in ms)
            n = len(shifts)
            complete = 0 in shifts
            ok = len(set(shifts)) == n and all(s % 6 == 0 for s in shifts)
            if ok and complete:
                ok = shifts == [6 * k for k in range(n)]
            elif ok:
                ok = shifts == [shifts[0] + 6 * k for k in range(n)]
            if ok:
                stat.discharged += 1
                stat.sample({"site": fn.where(i), "function": fn.name, "bytes": n, "shifts": shifts}, limit=8)
            else:
                res.add(Finding("C08", "C08.b.utf8-shifts", fn.name, "%d-term assembly" % n, fn.where(i),
                                "%s assembles a code point from %d masked bytes with the shifts %s (expected %s): fields overlap or "
                                "leave a gap, so this reader decodes that width class of UTF-8 differently from the other decoders "
                                "and from the writer" % (fn.name, n, shifts, [6 * k for k in range(n)]), unit=fn.unit.display))
    return stat


UTF8_ROUTINES = {"sexp_utf8_encode_char", "sexp_utf8_char_byte_count", "sexp_write_utf8_char", "sexp_read_utf8_char",
                 "sexp_push_utf8_char", "sexp_string_utf8_ref"}


def run_utf8_boundary(prog, res, floor=3, units=("sexp.c", "eval.c", "vm.c", "io.c", "port.c")):
    """a branch that decides between the one-byte path and the multi-byte UTF-8 routines splits the code points at
    0x80 exactly: `c >= 0x80`, `c < 0x80`, `c > 0x7F` or `c <= 0x7F`.  `c > 0x80` sends U+0080 down the one-byte
    path, where it is stored as the bare continuation byte 0x80 - a string no reader of UTF-8 accepts."""
    stat = res.stat("C08.c", "branches that choose between the ASCII path and the UTF-8 routines split at 0x80 exactly", floor=floor)
    for fn in prog.all_funcs():
        if fn.unit.name not in units or not fn.blocks:
            continue
        for b in fn.blocks.values():
            if b.cond is None or len(b.succs) != 2:
                continue
            for m in fn.subtree(b.cond):
                nd = fn.nodes[m]
                if nd["k"] != "bin" or nd["o"] not in ("<", "<=", ">", ">="):
                    continue
                l, r = nd["c"]
                o = nd["o"]
                k = fn.const_val(r)
                if k is None:
                    k = fn.const_val(l)
                    o = {"<": ">", "<=": ">=", ">": "<", ">=": "<="}[o]
                if k not in (0x7F, 0x80):
                    continue
                # does an arm (up to three blocks deep) call a UTF-8 routine?
                hit = False
                seen, frontier = set(), [s for s in b.succs if s is not None and s >= 0]
                for _depth in range(3):
                    nxt = []
                    for s in frontier:
                        if s in seen:
                            continue
                        seen.add(s)
                        for e in fn.blocks[s].elems:
                            if fn.nodes[e]["k"] == "call" and fn.nodes[e].get("o") in UTF8_ROUTINES:
                                hit = True
                        nxt.extend(x for x in fn.blocks[s].succs if x is not None and x >= 0)
                    frontier = nxt
                if not hit:
                    continue
                stat.sites += 1
                stat.obligations += 1
                good = (k == 0x80 and o in (">=", "<")) or (k == 0x7F and o in (">", "<="))
                if good:
                    stat.discharged += 1
                    stat.sample({"site": fn.where(m), "function": fn.name, "test": fn.txt(m)[:40]})
                else:
                    res.add(Finding("C08", "C08.c.utf8-boundary", fn.name, "%s %s %d" % ("c", o, k), fn.where(m),
                                    "%s chooses between the one-byte path and the UTF-8 routines with `%s`: the code point %d "
                                    "takes the wrong side (U+0080 is stored as a bare continuation byte, or U+007F is treated as "
                                    "multi-byte)" % (fn.name, fn.txt(m)[:40], 0x80 if k == 0x80 else 0x7F), unit=fn.unit.display))
    return stat
