import extract
import callgraph
from rules import f3, c16, common


def run(res, tier, replay=None):
    prog = extract.load_program("default")
    res.functions = sum(1 for _ in prog.all_funcs())
    cg = callgraph.CallGraph(prog)
    c16.phase_order(prog, res)
    f3.c16b_ephemeron(prog, res, cg)
    c16.release_once(prog, res)
    # (d) an owner keeps what it owns alive: type rows trace every reference field (shared with C02.R5) - a
    # port whose fileno slot is not traced gets its descriptor finalized while the port is still in use
    f3.r5_type_table(prog, res, prop="C16")
    c16.derived_cpointers(prog, res)
    c16.dead_reentry(prog, res, floor=8)
    c16.emfile_retry(prog, res)
    res.assumptions = common.ASSUMPTIONS
    res.explanation = (
        "C16 structural clauses: (a) on every CFG path of sexp_gc the calls occur in the order mark*, weak reset, "
        "finalize, sweep (sexp_destroy_context: mark, finalize, sweep, finalize); (b) the Ephemeron type row has the "
        "key as its single weak slot, the value as the one extra slot, neither strongly traced, and some function that "
        "reads the weak columns can reach the marker (value retention); (c) every close/fclose of a fileno's fd or a "
        "port's stream, in any unit incl. generated stubs, is dominated by the owner's openp test and the store "
        "openp=0; every decrement of fileno.count is the operand of a zero test, the count is only ever incremented / decremented on objects not allocated on the "
        "spot, and goes up in the function that stores a fileno into a port; (e) a non-owning cpointer that wraps memory reached "
        "through another cpointer's C value (generated struct-field getters, readdir) names that object as its parent; (d) every reference field of every type row is inside the range "
        "the marker traces (the clause shared with C02.R5: an untraced owner slot lets the owned object be finalized while "
        "its owner is live). (f) no loop over a cursor (`for (; h; h = h->next)`) can be re-entered with the cursor exhausted - the collector's second finalization pass, which closes dynamic libraries, starts over at the first segment. (g) the collect-and-retry loops on descriptor exhaustion (condition tests errno == EMFILE): by constant propagation over the retry counter, the retry is taken on the first exhaustion and the sexp_gc call inside the loop is enabled on that retry. Not decided: when a key becomes unreachable, "
        "whether the collection actually frees a descriptor.")
    if tier == "thorough":
        common.thorough_mutations(res, "C16", {
            "C16.a": lambda p, r: c16.phase_order(p, r),
            "C16.b": lambda p, r: f3.c16b_ephemeron(p, r, callgraph.CallGraph(p)),
            "C16.c": lambda p, r: c16.release_once(p, r),
            "C16.d": lambda p, r: f3.r5_type_table(p, r, prop="C16"),
            "C16.e": lambda p, r: c16.derived_cpointers(p, r, floor=0),
            "C16.f": lambda p, r: c16.dead_reentry(p, r, floor=0),
            "C16.g": lambda p, r: c16.emfile_retry(p, r, floor=0),
        })
