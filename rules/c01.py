"""C01 - memory safety / error containment: structural clauses."""
import tables
import kinds
from kinds import KindModel, KindAnalysis
from report import Finding
from extract import AnalysisBroken

# Generic arithmetic entry points dispatch on sexp_number_type(a)/(b) - a *function* that
# inspects the tags itself - and reach typed accesses only inside the arms of that switch.
# The kind engine does not model the classifier's return value, so these are not descended
# into; instead the shape that justifies the trust is checked on every run (check_dispatchers).
NUMBER_DISPATCH = ("sexp_add", "sexp_sub", "sexp_mul", "sexp_div", "sexp_quotient", "sexp_remainder", "sexp_compare")

DEFINE_FOREIGN = ("sexp_define_foreign_aux", "sexp_define_foreign_proc_aux", "sexp_make_foreign")


def primitives(prog):
    """(Func, scheme name, origin) for every C function callable from Scheme with
    unchecked arguments: opcodes[] rows with a func, and sexp_define_foreign* registrations"""
    out = []
    seen = set()
    orows, _g = tables.opcode_rows(prog)
    opc_unit = prog.unit("opcodes.c")
    for r in orows:
        f = r.get("func")
        if isinstance(f, str) and f and f != "0":
            fn = prog.func(f, opc_unit)
            if fn is None:
                continue
            key = (fn.file, fn.name)
            if key not in seen:
                seen.add(key)
                out.append((fn, r["name"], "opcodes[]"))
    for u in prog.units:
        for fn in u.functions.values():
            for i, nd in enumerate(fn.nodes):
                if nd["k"] == "call" and nd.get("o") in DEFINE_FOREIGN:
                    name = None
                    target = None
                    for a in nd["c"][1:]:
                        a = fn.strip(a)
                        an = fn.nodes[a]
                        if an["k"] == "str" and name is None:
                            name = an.get("s")
                        if an["k"] == "ref" and an.get("dk") == "f":
                            target = an["o"]
                    if target:
                        tf = prog.func(target, u)
                        if tf is not None:
                            key = (tf.file, tf.name)
                            if key not in seen:
                                seen.add(key)
                                out.append((tf, name, u.display))
    return out


def user_params(fn):
    """var ids of the parameters that carry Scheme values: sexp-typed params after (ctx, self, n)"""
    ps = []
    for idx, vid in enumerate(fn.params):
        if idx >= 3 and fn.var_type(vid) == tables.SEXP_T:
            ps.append(vid)
    return ps


def scope_filter(root=None):
    """advisory_filter for run_b: True (advisory) for primitives that are not reachable under
    their registered name from an R7RS-small export (Scope B of DESIGN.md C01.b)"""
    import slint
    names, _libs = slint.scope_a_names(root, extra_libs=[("scheme", "bytevector")])

    def is_advisory(fn, sname, origin):
        if origin == "opcodes[]":
            return False
        if origin == "helper":
            return None          # decided by its callers
        key = slint.unit_key(origin)
        allowed = names.get(key, set())
        return not ("*" in allowed or sname in allowed)
    return is_advisory


def check_dispatchers(prog, res):
    """the trusted generic-arithmetic dispatchers really have the shape that justifies the
    trust: both operands go through sexp_number_type() and the function's typed accesses
    on its parameters all sit in blocks dominated by a switch on the combined classes"""
    from cfg import dominators
    stat = res.stat("C01.b.dispatch", "generic arithmetic entry points classify both operands with "
                    "sexp_number_type() and touch them only under the switch on the classes", floor=6)
    for name in NUMBER_DISPATCH:
        fn = prog.func(name)
        if fn is None:
            raise AnalysisBroken("anchor vanished: %s" % name)
        stat.sites += 1
        stat.obligations += 1
        ups = [v for v in fn.params if fn.var_type(v) == tables.SEXP_T][1:]
        classified = set()
        for i, nd in enumerate(fn.nodes):
            if nd["k"] == "call" and nd.get("o") == "sexp_number_type":
                a = fn.strip(nd["c"][1])
                if fn.nodes[a]["k"] == "ref" and "d" in fn.nodes[a]:
                    classified.add(fn.nodes[a]["d"])
        sw = [b for b in fn.blocks.values() if b.term == "SwitchStmt"]
        ok = set(ups) <= classified and len(sw) >= 1
        if ok:
            dom = dominators(fn)
            swb = sw[0].id
            for b in fn.blocks.values():
                for e in b.elems:
                    nd = fn.nodes[e]
                    if nd["k"] == "mem" and nd.get("ar"):
                        base = fn.strip(nd["c"][0])
                        bn = fn.nodes[base]
                        if bn["k"] == "ref" and bn.get("d") in ups and swb not in dom.get(b.id, ()):
                            ok = False
        if ok:
            stat.discharged += 1
            stat.sample({"function": name, "where": fn.where(), "classified": [fn.vars[v]["n"] for v in ups]})
        else:
            res.add(Finding("C01", "C01.b.dispatch-shape", name, "number dispatch", fn.where(),
                            "%s no longer classifies both operands with sexp_number_type() before touching them"
                            % name, unit=fn.unit.display))
    return stat


def run_b(prog, res, scope=None, advisory_filter=None, floor=150):
    """primitive parameter tag guards (+ one level of helper summaries)"""
    stat = res.stat("C01.b", "typed accesses on primitive parameters (and values loaded from user containers) "
                    "dominated by a tag guard admitting only the accessed union member", floor=floor)
    model = KindModel(prog)
    prims = primitives(prog)
    primset = {(f.file, f.name) for (f, _n, _o) in prims}
    results = {}
    pending_helpers = {}
    scope_a_helpers = set()
    for (fn, sname, origin) in prims:
        ups = user_params(fn)
        stat.sites += 1
        if not ups:
            continue
        ka = KindAnalysis(model, fn, {v: model.U for v in ups}).run()
        results[(fn.file, fn.name)] = (fn, sname, origin, ka)
        for (e, callee, ctxs) in ka.calls_out:
            cf = prog.func(callee, fn.unit)
            if cf is None or (cf.file, cf.name) in primset or cf.name in NUMBER_DISPATCH:
                continue
            key = (cf.file, cf.name)
            d = pending_helpers.setdefault(key, (cf, {}, []))
            for ai, ks in ctxs.items():
                if ai < len(cf.params):
                    vid = cf.params[ai]
                    d[1][vid] = d[1].get(vid, frozenset()) | ks
            d[2].append(fn.name)
            if not (advisory_filter and advisory_filter(fn, sname, origin)):
                scope_a_helpers.add(key)
    # helpers: one level, two rounds
    helper_results = {}
    for _round in range(2):
        nxt = {}
        for key, (cf, pk, callers) in pending_helpers.items():
            if key in helper_results:
                continue
            pk = {v: ks for v, ks in pk.items() if cf.var_type(v) == tables.SEXP_T}
            if not pk:
                continue
            ka = KindAnalysis(model, cf, pk).run()
            helper_results[key] = (cf, "(helper of %s)" % ",".join(sorted(set(callers))[:3]), "helper", ka)
            for (e, callee, ctxs) in ka.calls_out:
                c2 = prog.func(callee, cf.unit)
                if c2 is None or (c2.file, c2.name) in primset or (c2.file, c2.name) in helper_results \
                        or c2.name in NUMBER_DISPATCH:
                    continue
                d = nxt.setdefault((c2.file, c2.name), (c2, {}, []))
                for ai, ks in ctxs.items():
                    if ai < len(c2.params):
                        vid = c2.params[ai]
                        d[1][vid] = d[1].get(vid, frozenset()) | ks
                d[2].append(cf.name)
                if key in scope_a_helpers:
                    scope_a_helpers.add((c2.file, c2.name))
        pending_helpers = nxt
    for key, (fn, sname, origin, ka) in list(results.items()) + list(helper_results.items()):
        bad = [o for o in ka.obligations if not o[4]]
        n_ob = len(ka.obligations)
        stat.obligations += n_ob
        stat.discharged += n_ob - len(bad)
        if n_ob:
            stat.nontrivial.add(key)
        if n_ob and not bad:
            o = ka.obligations[0]
            stat.sample({"function": fn.name, "scheme_name": sname, "where": fn.where(o[0]),
                         "access": "%s of %s" % (o[5], o[1]), "guarded_as": model.describe(o[3])})
        seen = set()
        for (e, root, need, have, ok, what) in bad:
            disc = "%s of %s" % (what, root)
            if disc in seen:
                continue
            seen.add(disc)
            extra = sorted(have - need)
            f = Finding("C01", "C01.b.unguarded-access", fn.name, disc, fn.where(e),
                        "%s (%s; %s) reads %s of `%s`, which on this path may still be %s: no dominating tag test "
                        "excludes it (arguments of foreign calls are not type-checked by the VM)"
                        % (fn.name, sname, origin, what, root, model.describe(frozenset(extra))),
                        unit=fn.unit.display, extra={"may_be": extra[:12]})
            if advisory_filter:
                adv = advisory_filter(fn, sname, origin)
                if adv is None:
                    adv = key not in scope_a_helpers
                f.advisory = bool(adv)
            res.add(f)
    return stat


def witnesses_b(prog, res):
    """tiny positive/negative examples analysed with the same engine on every run"""
    import os
    import extract
    path = os.path.join(extract.VERIF, "selftest", "witness", "c01b.c")
    wp = extract.load_program(prog.config, only={"<none>"}, extra_sources=[(path, [])])
    model = KindModel(prog)
    u = wp.units[0]
    n = 0
    for name, fn in sorted(u.functions.items()):
        if not name.startswith("witness_"):
            continue
        n += 1
        ka = KindAnalysis(model, fn, {v: model.U for v in user_params(fn)}).run()
        bad = [o for o in ka.obligations if not o[4]]
        if name.startswith("witness_bad_"):
            res.witness.append((name, bool(bad)))
        else:
            res.witness.append((name, not bad))
    if n < 8:
        res.broken.append("C01.b witness file yielded only %d functions" % n)
