"""C01 - memory safety / error containment: structural clauses."""
import tables
import kinds
from kinds import KindModel, KindAnalysis
from report import Finding
from extract import AnalysisBroken

# Generic arithmetic entry points dispatch on sexp_number_type(a)/(b) - a *function* that
# inspects the tags itself - and reach typed accesses only inside the arms of that switch.
# The kind engine does not model the classifier's return value, so these are not descended
# into; instead the shape that justifies the trust is checked on every run (check_dispatchers).
NUMBER_DISPATCH = ("sexp_add", "sexp_sub", "sexp_mul", "sexp_div", "sexp_quotient", "sexp_remainder", "sexp_compare")

DEFINE_FOREIGN = ("sexp_define_foreign_aux", "sexp_define_foreign_proc_aux", "sexp_make_foreign")


def primitives(prog):
    """(Func, scheme name, origin) for every C function callable from Scheme with
    unchecked arguments: opcodes[] rows with a func, and sexp_define_foreign* registrations"""
    out = []
    seen = set()
    orows, _g = tables.opcode_rows(prog)
    opc_unit = prog.unit("opcodes.c")
    for r in orows:
        f = r.get("func")
        if isinstance(f, str) and f and f != "0":
            fn = prog.func(f, opc_unit)
            if fn is None:
                continue
            key = (fn.file, fn.name)
            if key not in seen:
                seen.add(key)
                out.append((fn, r["name"], "opcodes[]"))
    for u in prog.units:
        for fn in u.functions.values():
            for i, nd in enumerate(fn.nodes):
                if nd["k"] == "call" and nd.get("o") in DEFINE_FOREIGN:
                    name = None
                    target = None
                    for a in nd["c"][1:]:
                        a = fn.strip(a)
                        an = fn.nodes[a]
                        if an["k"] == "str" and name is None:
                            name = an.get("s")
                        if an["k"] == "ref" and an.get("dk") == "f":
                            target = an["o"]
                    if target:
                        tf = prog.func(target, u)
                        if tf is not None:
                            key = (tf.file, tf.name)
                            if key not in seen:
                                seen.add(key)
                                out.append((tf, name, u.display))
    return out


def user_params(fn):
    """var ids of the parameters that carry Scheme values: sexp-typed params after (ctx, self, n)"""
    ps = []
    for idx, vid in enumerate(fn.params):
        if idx >= 3 and fn.var_type(vid) == tables.SEXP_T:
            ps.append(vid)
    return ps


def scope_filter(root=None):
    """advisory_filter for run_b: True (advisory) for primitives that are not reachable under
    their registered name from an R7RS-small export (Scope B of DESIGN.md C01.b)"""
    import slint
    names, _libs = slint.scope_a_names(root, extra_libs=[("scheme", "bytevector")])

    def is_advisory(fn, sname, origin):
        if origin == "opcodes[]":
            return False
        if origin == "helper":
            return None          # decided by its callers
        key = slint.unit_key(origin)
        allowed = names.get(key, set())
        return not ("*" in allowed or sname in allowed)
    return is_advisory


def check_dispatchers(prog, res):
    """the trusted generic-arithmetic dispatchers really have the shape that justifies the
    trust: both operands go through sexp_number_type() and the function's typed accesses
    on its parameters all sit in blocks dominated by a switch on the combined classes"""
    from cfg import dominators
    stat = res.stat("C01.b.dispatch", "generic arithmetic entry points classify both operands with "
                    "sexp_number_type() and touch them only under the switch on the classes", floor=6)
    for name in NUMBER_DISPATCH:
        fn = prog.func(name)
        if fn is None:
            raise AnalysisBroken("anchor vanished: %s" % name)
        stat.sites += 1
        stat.obligations += 1
        ups = [v for v in fn.params if fn.var_type(v) == tables.SEXP_T][1:]
        classified = set()
        for i, nd in enumerate(fn.nodes):
            if nd["k"] == "call" and nd.get("o") == "sexp_number_type":
                a = fn.strip(nd["c"][1])
                if fn.nodes[a]["k"] == "ref" and "d" in fn.nodes[a]:
                    classified.add(fn.nodes[a]["d"])
        sw = [b for b in fn.blocks.values() if b.term == "SwitchStmt"]
        ok = set(ups) <= classified and len(sw) >= 1
        if ok:
            dom = dominators(fn)
            swb = sw[0].id
            for b in fn.blocks.values():
                for e in b.elems:
                    nd = fn.nodes[e]
                    if nd["k"] == "mem" and nd.get("ar"):
                        base = fn.strip(nd["c"][0])
                        bn = fn.nodes[base]
                        if bn["k"] == "ref" and bn.get("d") in ups and swb not in dom.get(b.id, ()):
                            ok = False
        if ok:
            stat.discharged += 1
            stat.sample({"function": name, "where": fn.where(), "classified": [fn.vars[v]["n"] for v in ups]})
        else:
            res.add(Finding("C01", "C01.b.dispatch-shape", name, "number dispatch", fn.where(),
                            "%s no longer classifies both operands with sexp_number_type() before touching them"
                            % name, unit=fn.unit.display))
    return stat


def run_b(prog, res, scope=None, advisory_filter=None, floor=150):
    """primitive parameter tag guards (+ one level of helper summaries)"""
    stat = res.stat("C01.b", "typed accesses on primitive parameters (and values loaded from user containers) "
                    "dominated by a tag guard admitting only the accessed union member", floor=floor)
    model = KindModel(prog)
    prims = primitives(prog)
    primset = {(f.file, f.name) for (f, _n, _o) in prims}
    results = {}
    pending_helpers = {}
    scope_a_helpers = set()
    for (fn, sname, origin) in prims:
        ups = user_params(fn)
        stat.sites += 1
        if not ups:
            continue
        ka = KindAnalysis(model, fn, {v: model.U for v in ups}).run()
        results[(fn.file, fn.name)] = (fn, sname, origin, ka)
        for (e, callee, ctxs) in ka.calls_out:
            cf = prog.func(callee, fn.unit)
            if cf is None or (cf.file, cf.name) in primset or cf.name in NUMBER_DISPATCH:
                continue
            key = (cf.file, cf.name)
            d = pending_helpers.setdefault(key, (cf, {}, []))
            for ai, ks in ctxs.items():
                if ai < len(cf.params):
                    vid = cf.params[ai]
                    d[1][vid] = d[1].get(vid, frozenset()) | ks
            d[2].append(fn.name)
            if not (advisory_filter and advisory_filter(fn, sname, origin)):
                scope_a_helpers.add(key)
    # helpers: one level, two rounds
    helper_results = {}
    for _round in range(2):
        nxt = {}
        for key, (cf, pk, callers) in pending_helpers.items():
            if key in helper_results:
                continue
            pk = {v: ks for v, ks in pk.items() if cf.var_type(v) == tables.SEXP_T}
            if not pk:
                continue
            ka = KindAnalysis(model, cf, pk).run()
            helper_results[key] = (cf, "(helper of %s)" % ",".join(sorted(set(callers))[:3]), "helper", ka)
            for (e, callee, ctxs) in ka.calls_out:
                c2 = prog.func(callee, cf.unit)
                if c2 is None or (c2.file, c2.name) in primset or (c2.file, c2.name) in helper_results \
                        or c2.name in NUMBER_DISPATCH:
                    continue
                d = nxt.setdefault((c2.file, c2.name), (c2, {}, []))
                for ai, ks in ctxs.items():
                    if ai < len(c2.params):
                        vid = c2.params[ai]
                        d[1][vid] = d[1].get(vid, frozenset()) | ks
                d[2].append(cf.name)
                if key in scope_a_helpers:
                    scope_a_helpers.add((c2.file, c2.name))
        pending_helpers = nxt
    for key, (fn, sname, origin, ka) in list(results.items()) + list(helper_results.items()):
        bad = [o for o in ka.obligations if not o[4]]
        n_ob = len(ka.obligations)
        stat.obligations += n_ob
        stat.discharged += n_ob - len(bad)
        if n_ob:
            stat.nontrivial.add(key)
        if n_ob and not bad:
            o = ka.obligations[0]
            stat.sample({"function": fn.name, "scheme_name": sname, "where": fn.where(o[0]),
                         "access": "%s of %s" % (o[5], o[1]), "guarded_as": model.describe(o[3])})
        seen = set()
        for (e, root, need, have, ok, what) in bad:
            disc = "%s of %s" % (what, root)
            if disc in seen:
                continue
            seen.add(disc)
            extra = sorted(have - need)
            f = Finding("C01", "C01.b.unguarded-access", fn.name, disc, fn.where(e),
                        "%s (%s; %s) reads %s of `%s`, which on this path may still be %s: no dominating tag test "
                        "excludes it (arguments of foreign calls are not type-checked by the VM)"
                        % (fn.name, sname, origin, what, root, model.describe(frozenset(extra))),
                        unit=fn.unit.display, extra={"may_be": extra[:12]})
            if advisory_filter:
                adv = advisory_filter(fn, sname, origin)
                if adv is None:
                    adv = key not in scope_a_helpers
                f.advisory = bool(adv)
            res.add(f)
    return stat


def witnesses_b(prog, res):
    """tiny positive/negative examples analysed with the same engine on every run"""
    import os
    import extract
    path = os.path.join(extract.VERIF, "selftest", "witness", "c01b.c")
    wp = extract.load_program(prog.config, only={"<none>"}, extra_sources=[(path, [])])
    model = KindModel(prog)
    u = wp.units[0]
    n = 0
    for name, fn in sorted(u.functions.items()):
        if not name.startswith("witness_"):
            continue
        n += 1
        ka = KindAnalysis(model, fn, {v: model.U for v in user_params(fn)}).run()
        bad = [o for o in ka.obligations if not o[4]]
        if name.startswith("witness_bad_"):
            res.witness.append((name, bool(bad)))
        else:
            res.witness.append((name, not bad))
    if n < 8:
        res.broken.append("C01.b witness file yielded only %d functions" % n)


# ------------------------------------------------------------------ C01.g save/restore

def _is_lvalue_chain(fn, n):
    n = fn.strip(n)
    nd = fn.nodes[n]
    return nd["k"] == "mem" or (nd["k"] == "idx")


def save_restore_pairs(fn):
    """discover (local var id, lvalue text) such that the function both saves
    `L = E` and restores `E = L` (E a field / slot expression, L a local)"""
    saves = {}
    restores = {}
    for i, nd in enumerate(fn.nodes):
        if nd["k"] == "bin" and nd["o"] == "=":
            lhs, rhs = fn.strip(nd["c"][0]), fn.strip(nd["c"][1])
            ln, rn = fn.nodes[lhs], fn.nodes[rhs]
            if ln["k"] == "ref" and "d" in ln and ln["d"] not in fn.params and _is_lvalue_chain(fn, rhs):
                saves.setdefault((ln["d"], fn.txt(rhs)), []).append(i)
            if rn["k"] == "ref" and "d" in rn and rn["d"] not in fn.params and _is_lvalue_chain(fn, lhs):
                restores.setdefault((rn["d"], fn.txt(lhs)), []).append(i)
        elif nd["k"] == "decl" and "d" in nd and nd.get("c"):
            rhs = fn.strip(nd["c"][0])
            if _is_lvalue_chain(fn, rhs):
                saves.setdefault((nd["d"], fn.txt(rhs)), []).append(i)
    # a genuine save/restore has the saved location overwritten with something else in
    # between (sexp_context_params(ctx) = SEXP_NULL; sexp_context_child(ctx) = ctx2), or is a
    # listed pair whose location is modified by a callee (the stack top in sexp_eval_op)
    out = {}
    for k in saves:
        if k not in restores:
            continue
        vid, etxt = k
        overwritten = False
        for i, nd in enumerate(fn.nodes):
            if nd["k"] == "bin" and nd["o"] == "=":
                lhs, rhs = fn.strip(nd["c"][0]), fn.strip(nd["c"][1])
                if fn.txt(lhs) == etxt and not (fn.nodes[rhs]["k"] == "ref" and fn.nodes[rhs].get("d") == vid):
                    overwritten = True
        # a save variable holds nothing but the saved value
        from cfg import local_defs
        only_saves = all(d in saves[k] or (r is not None and fn.const_val(r) is not None) or
                         (fn.nodes[d]["k"] == "un" and fn.nodes[d]["o"] == "&")     # root-link &var
                         for (d, r) in local_defs(fn, vid))
        if only_saves and (overwritten or (fn.name, fn.vars[vid]["n"]) in CALLEE_MODIFIED):
            out[k] = (saves[k], restores[k])
    return out


# (function, local) pairs whose saved location is changed by callees rather than by a store
CALLEE_MODIFIED = {("sexp_eval_op", "top")}


def run_g(prog, res, floor=4):
    """context state saved into a local is restored on every path to a return"""
    from cfg import PathExplorer, return_node
    stat = res.stat("C01.g", "save/restore pairs (L = F(ctx) ... F(ctx) = L) discovered per function: the restore "
                    "executes on every path from the save to a return", floor=floor)
    anchors = {"sexp_eval_op": 0, "sexp_apply_no_err_handler": 0}
    for fn in prog.all_funcs():
        pairs = save_restore_pairs(fn)
        # only state that lives in a context / global cell: the lvalue mentions a context field
        pairs = {k: v for k, v in pairs.items() if "context." in k[1] or "globals" in k[1]}
        if not pairs:
            continue
        stat.sites += 1
        if fn.name in anchors:
            anchors[fn.name] = len(pairs)
        for (vid, etxt), (sv, rs) in pairs.items():
            stat.obligations += 1
            svs, rss = set(sv), set(rs)
            bad = []

            def transfer(bid, e, st):
                if e in svs:
                    return [1]
                if e in rss:
                    return [2] if st >= 1 else [st]
                return None

            def at_exit(bid, st, key):
                if st == 1:
                    bad.append((bid, key))

            ex = PathExplorer(fn, transfer, None, at_exit)
            ex.run(0)
            name = fn.vars[vid]["n"]
            if not bad:
                stat.discharged += 1
                stat.sample({"function": fn.name, "where": fn.where(sv[0]), "saved": "%s = %s" % (name, etxt[:60]),
                             "verdict": "restored on every path to a return"})
            else:
                bid, key = bad[0]
                rn = return_node(fn, bid)
                rtxt = fn.txt(rn)[:80] if rn is not None else "fall off end"
                res.add(Finding("C01", "C01.g.unrestored", fn.name, "%s <- %s at %s" % (etxt[:60], name, rtxt),
                                fn.where(rn) if rn is not None else fn.where(),
                                "%s saves %s into `%s` and restores it elsewhere, but the path ending in `%s` returns "
                                "without the restore: after an error the context does not evaluate later programs like "
                                "a context that never saw the error" % (fn.name, etxt[:60], name, rtxt),
                                unit=fn.unit.display, path=["B%s" % b for b in ex.path_to(key)]))
    for a, n in anchors.items():
        if n == 0:
            res.broken.append("C01.g: anchor %s has no discovered save/restore pair" % a)
    return stat


# ------------------------------------------------------------------ C01.a dispatch totality

def run_a(prog, res):
    stat = res.stat("C01.a", "every opcode enumerator below SEXP_OP_NUM_OPCODES has a case in the VM dispatch switch; "
                    "the default arm raises", floor=60)
    fn = prog.func("sexp_apply")
    if fn is None:
        raise AnalysisBroken("anchor vanished: sexp_apply")
    enum = tables.enum_values(prog, const_prefix="SEXP_OP_NOOP")
    limit = dict(enum).get("SEXP_OP_NUM_OPCODES")
    if limit is None:
        raise AnalysisBroken("anchor vanished: SEXP_OP_NUM_OPCODES")
    best = None
    for b in fn.blocks.values():
        if b.term == "SwitchStmt":
            n = sum(1 for s in b.succs if s is not None and s >= 0 and fn.blocks[s].lk == "case")
            if best is None or n > best[1]:
                best = (b, n)
    if best is None or best[1] < 40:
        raise AnalysisBroken("anchor vanished: the VM dispatch switch in sexp_apply")
    sw = best[0]
    covered = {}
    default = None
    for s in sw.succs:
        if s is None or s < 0:
            continue
        sb = fn.blocks[s]
        if sb.lk == "case" and sb.clo is not None:
            for v in range(sb.clo, (sb.chi if sb.chi is not None else sb.clo) + 1):
                covered[v] = sb
        elif sb.lk == "default":
            default = sb
    # opcodes that can reach the VM: emitted by the code generator (argument of an emit call,
    # anywhere outside sexp_apply) or exposed by a row of opcodes[]
    live = {}
    for f2 in prog.all_funcs():
        if f2.name == "sexp_apply" or f2.unit.name in ("disasm.c", "gc_heap.c"):
            continue
        for i, nd in enumerate(f2.nodes):
            if nd["k"] == "ref" and nd.get("dk") == "e" and nd["o"].startswith("SEXP_OP_") and nd["v"] < limit:
                p_ = f2.parent(i)
                while p_ is not None and f2.nodes[p_]["k"] in ("cast", "cond"):
                    p_ = f2.parent(p_)
                if p_ is not None and f2.nodes[p_]["k"] == "call":
                    live.setdefault(nd["v"], "%s in %s" % (f2.nodes[p_].get("o") or "call", f2.name))
    orows, _og = tables.opcode_rows(prog)
    for r in orows:
        if isinstance(r.get("code"), int) and r.get("name"):
            live.setdefault(r["code"], "opcodes[] row %s" % r["name"])
    names = {v: n for n, v in enum}
    for name, v in enum:
        if v >= limit:
            continue
        stat.sites += 1
        if v not in live and v not in covered:
            continue            # compiled out on both sides
        stat.obligations += 1
        if v in covered:
            stat.discharged += 1
        else:
            res.add(Finding("C01", "C01.a.missing-case", "sexp_apply", name, fn.where(),
                            "opcode %s (%d) can reach the VM (%s) but has no case in the dispatch switch"
                            % (name, v, live[v]), unit="vm.c"))
    stat.obligations += 1
    ok = False
    if default is not None:
        cur = default
        for _ in range(6):
            if cur.ln and cur.ln.startswith("goto:"):
                ok = cur.ln == "goto:call_error_handler"
                break
            nxt = [x for x in cur.succs if x is not None and x >= 0]
            if len(nxt) != 1:
                break
            cur = fn.blocks[nxt[0]]
    if ok:
        stat.discharged += 1
        stat.sample({"switch": "vm.c:%d" % sw.line, "cases": len(covered), "default": "raises (goto call_error_handler)"})
    else:
        res.add(Finding("C01", "C01.a.default-arm", "sexp_apply", "default arm", fn.where(),
                        "the default arm of the VM dispatch switch does not end in the raise idiom "
                        "(goto call_error_handler): an unknown opcode byte would fall through", unit="vm.c"))
    return stat


# ------------------------------------------------------------------ C01.d slot accessor rows

def run_d(prog, res):
    stat = res.stat("C01.d", "_GETTER/_SETTER rows of opcodes[] designate a sexp-typed field of the union member "
                    "of their type", floor=4)
    orows, _g = tables.opcode_rows(prog)
    trows, _tg = tables.type_rows(prog)
    L = tables.Layout(prog)
    bytag = {r["tag"]: r for r in trows}
    for r in orows:
        if r.get("_code_name") not in ("SEXP_OP_SLOT_REF", "SEXP_OP_SLOT_SET"):
            continue
        stat.sites += 1
        stat.obligations += 1
        ty = tables.unbox_fixnum(r["data"])
        idx = tables.unbox_fixnum(r["data2"])
        trow = bytag.get(ty)
        name = r["name"]
        if trow is None or trow["_member"] is None or idx is None:
            res.add(Finding("C01", "C01.d.slot-row", "opcodes", name, "opcodes.c:%d" % r["_line"],
                            "slot accessor %s names type %s / index %s which has no described union member" % (name, ty, idx),
                            unit="opcodes.c"))
            continue
        member = trow["_member"]
        off = L.value_off + idx * 8
        f = L.field_at(member, off)
        if f is None or f[1] != tables.SEXP_T:
            res.add(Finding("C01", "C01.d.slot-row", "opcodes", name, "opcodes.c:%d" % r["_line"],
                            "slot accessor %s reads word %d of value.%s, which is %s - not a sexp field: the getter hands a "
                            "raw word to Scheme / the setter lets Scheme overwrite it" %
                            (name, idx, member, ("%s %s" % (f[1], f[0])) if f else "outside the member"), unit="opcodes.c"))
        else:
            stat.discharged += 1
            stat.sample({"row": name, "type": trow["_name"], "index": idx, "field": "%s.%s" % (member, f[0])})
    return stat


# ------------------------------------------------------------------ C01.c1 data-dependent stack copies are guarded

def _dominators_from(fn, root):
    """dominator sets of the blocks reachable from `root`, with `root` as entry"""
    seen = []
    st = [root]
    mark = set()
    while st:
        b = st.pop()
        if b in mark:
            continue
        mark.add(b)
        seen.append(b)
        for s in fn.blocks[b].succs:
            if s is not None and s >= 0 and s != fn.exit:
                st.append(s)
    dom = {b: set(mark) for b in mark}
    dom[root] = {root}
    changed = True
    while changed:
        changed = False
        for b in seen:
            if b == root:
                continue
            preds = [p for p in fn.blocks[b].preds if p in mark]
            if not preds:
                continue
            new = set.intersection(*(dom[p] for p in preds)) | {b}
            if new != dom[b]:
                dom[b] = new
                changed = True
    return dom


def run_c1(prog, res):
    """VM: a loop that moves `top` while storing into the stack (a data-dependent number of
    pushes: apply's argument copy, the argument copy at procedure entry) is preceded, on every path
    from the instruction dispatch, by a capacity check of `top` against the stack's length"""
    from cfg import block_reach
    stat = res.stat("C01.c1", "VM loops that push a data-dependent number of values are dominated (from the dispatch) by a "
                    "stack-capacity check", floor=2)
    fn = prog.func("sexp_apply")
    topv = [i for i, v in enumerate(fn.vars) if v["n"] == "top" and v["k"] == "l"][0]
    stackv = [i for i, v in enumerate(fn.vars) if v["n"] == "stack" and v["k"] == "l"][0]
    sw = None
    for b in fn.blocks.values():
        if b.term == "SwitchStmt":
            n = sum(1 for s in b.succs if s is not None and s >= 0 and fn.blocks[s].lk == "case")
            if sw is None or n > sw[1]:
                sw = (b, n)
    sw = sw[0]
    # locals every definition of which is computed from top (`need = top + n`) stand for top in a capacity check
    from cfg import local_defs as _ld
    topish = {topv}
    for vid in range(len(fn.vars)):
        if vid in fn.params or vid == topv:
            continue
        ds = [r for (_d, r) in _ld(fn, vid)]
        if ds and all(r is not None and topv in fn.refs_in(r) for r in ds):
            topish.add(vid)
    caps = set()
    for b in fn.blocks.values():
        if b.cond is not None and (topish & fn.refs_in(b.cond)):
            t = fn.txt(b.cond)
            if "stack.length" in t and any(fn.nodes[x]["k"] == "bin" and fn.nodes[x]["o"] in (">=", ">", "<", "<=")
                                           for x in fn.subtree(b.cond)):
                caps.add(b.id)
    if not caps:
        raise AnalysisBroken("anchor vanished: no stack-capacity check (sexp_ensure_stack) in sexp_apply")
    # blocks that both move top and store into stack[..top..]
    moves, stores = set(), set()
    for b in fn.blocks.values():
        for e in b.elems:
            nd = fn.nodes[e]
            if nd["k"] == "un" and nd["o"] in ("pre++", "post++", "pre--", "post--"):
                x = fn.strip(nd["c"][0])
                if fn.nodes[x]["k"] == "ref" and fn.nodes[x].get("d") == topv:
                    moves.add(b.id)
            if nd["k"] == "bin" and nd["o"] == "=":
                l = fn.strip(nd["c"][0])
                if fn.nodes[l]["k"] == "idx":
                    base = fn.strip(fn.nodes[l]["c"][0])
                    if fn.nodes[base]["k"] == "ref" and fn.nodes[base].get("d") == stackv and \
                            topv in fn.refs_in(fn.nodes[l]["c"][1]):
                        stores.add(b.id)
    # inner loops: natural loops of for/while/do statements (header dominates the body)
    from cfg import dominators
    dom_all = dominators(fn)
    loops = []
    heads = {}
    for t in fn.blocks.values():
        for h in t.succs:
            if h is not None and h >= 0 and h in dom_all.get(t.id, ()):
                heads.setdefault(h, []).append(t.id)        # back edge t -> h
    for h, latches in heads.items():
        body = {h}
        st = list(latches)
        while st:
            x = st.pop()
            if x in body:
                continue
            body.add(x)
            st.extend(fn.blocks[x].preds)
        if len(body) > 60:
            continue        # the interpreter's own dispatch loop
        if (body & moves) and (body & stores):
            loops.append(body)
    dom_sw = _dominators_from(fn, sw.id)
    dom_en = _dominators_from(fn, fn.entry)
    fpv = [i for i, v in enumerate(fn.vars) if v["n"] == "fp" and v["k"] == "l"]
    fpv = fpv[0] if fpv else None

    def expand(vs, depth=0):
        """variables a set of variables is computed from (locals defined once from an expression)"""
        out = set(vs)
        if depth > 3:
            return out
        for v in vs:
            if v in fn.params or v in (topv, fpv, stackv):
                continue
            ds = [r for (_d, r) in _ld(fn, v) if r is not None]
            if len(ds) == 1:
                out |= expand(fn.refs_in(ds[0]) - {v}, depth + 1)
        return out

    def positive_vars(n, sign=1, depth=0):
        """locals that enter the expression with a positive sign (top = fp - j + i - 1: a larger j lowers top)"""
        n = fn.strip(n)
        nd = fn.nodes[n]
        if nd["k"] == "ref" and "d" in nd:
            return {nd["d"]} if sign > 0 else set()
        if nd["k"] == "bin" and nd["o"] in ("+", "-") and depth < 12:
            return positive_vars(nd["c"][0], sign, depth + 1) | \
                positive_vars(nd["c"][1], sign if nd["o"] == "+" else -sign, depth + 1)
        if fn.const_val(n) is not None:
            return set()
        return set(fn.refs_in(n))        # anything else: be conservative

    def count_vars(scc):
        """integer locals that the position `top` starts the loop at is computed from, other than frame quantities
        read from the stack itself: the data-dependent part of what the loop is going to write"""
        need = set()
        blocks = set(scc)
        for x in scc:
            blocks |= {p for p in fn.blocks[x].preds if p not in scc}
        for x in blocks:
            for e in fn.blocks[x].elems:
                nd = fn.nodes[e]
                if nd["k"] == "bin" and nd["o"] in ("=", "+="):
                    l = fn.strip(nd["c"][0])
                    if fn.nodes[l]["k"] == "ref" and fn.nodes[l].get("d") == topv:
                        for v in positive_vars(nd["c"][1]):
                            if v in (topv, fpv, stackv) or v in fn.params or (fn.var_type(v) or "") == tables.SEXP_T:
                                continue
                            ds = [r for (_d, r) in _ld(fn, v) if r is not None]
                            if ds and all(stackv in fn.refs_in(r) for r in ds):
                                continue        # previous fp / previous argument count: read from the frame
                            need.add(v)
        return need
    for scc in loops:
        stat.sites += 1
        stat.obligations += 1
        head = min(scc, key=lambda x: -x)
        line = min(fn.blocks[x].line or 10**9 for x in scc)
        if all(x in dom_sw for x in scc):
            good = [c for c in caps if all(c in dom_sw[x] for x in scc)]
        else:
            # before the dispatch loop (argument copy at procedure entry)
            good = [c for c in caps if all(c in dom_en.get(x, ()) for x in scc)]
        ok = bool(good)
        need = count_vars(scc)
        if ok and need:
            covered = False
            for c in good:
                have = expand(fn.refs_in(fn.blocks[c].cond))
                if need <= have:
                    covered = True
            if not covered:
                res.add(Finding("C01", "C01.c1.check-ignores-count", "sexp_apply", "loop moving top",
                                "vm.c:%d" % line, "the capacity check that dominates this VM loop does not mention `%s`, from which the "
                                "loop's starting position of `top` is computed: the check leaves a fixed slack while the loop "
                                "writes a data-dependent number of slots, so a long enough argument list runs past the stack"
                                % ", ".join(sorted(fn.vars[v]["n"] for v in need)), unit="vm.c"))
                continue
        if ok:
            stat.discharged += 1
            stat.sample({"loop_at": "vm.c:%d" % line, "verdict": "capacity check dominates the loop"})
        else:
            res.add(Finding("C01", "C01.c1.unchecked-stack-copy", "sexp_apply", "loop moving top",
                            "vm.c:%d" % line, "a VM loop stores into stack[...top...] while moving `top` a data-dependent "
                            "number of times, and no check of `top` against the stack's length dominates it from the "
                            "instruction dispatch: a long argument list writes past the end of the stack object",
                            unit="vm.c"))
    return stat


def run_c3(prog, res, floor=2):
    """a request to grow the VM stack covers what made it necessary: where the test `E >= length of the stack`
    leads to sexp_grow_stack(ctx, A), the requested size A is at least E + 1 (as linear forms over the same
    variables), and sexp_grow_stack does not report success after clamping the new size to a constant without
    comparing its `min_size` parameter with that limit"""
    from rules import c01i
    from cfg import reach_without, elem_positions, enclosing_elem
    stat = res.stat("C01.c3", "stack growth requests cover the compared quantity; the grower fails when its limit is below the request",
                    floor=floor)
    found = 0
    for fn in prog.all_funcs():
        if fn.unit.name not in ("vm.c", "eval.c") or not fn.blocks:
            continue
        cx = None
        for i, nd in enumerate(fn.nodes):
            if nd["k"] != "call" or nd.get("o") != "sexp_grow_stack" or len(nd["c"]) < 3:
                continue
            cx = cx or c01i.Ctx(fn)
            at = c01i.enclosing_elem(fn, i, cx.pos)
            if at is None or at[0] not in cx.reach:
                continue
            found += 1
            stat.sites += 1
            stat.obligations += 1
            A = c01i.canon(cx, nd["c"][2], at)
            ok = False
            seen_cmp = False
            for (a, pol, g) in c01i.facts_at(cx, at):
                an = fn.nodes[a]
                if an["k"] != "bin" or an["o"] not in (">=", ">", "<", "<=") or "stack.length" not in fn.txt(a):
                    continue
                l, r = an["c"]
                o = an["o"] if pol else {"<": ">=", "<=": ">", ">": "<=", ">=": "<"}[an["o"]]
                if "stack.length" in fn.txt(l):
                    l, r = r, l
                    o = {"<": ">", "<=": ">=", ">": "<", ">=": "<="}[o]
                if o not in (">=", ">"):
                    continue
                seen_cmp = True
                E = c01i.canon(cx, l, g)
                d = c01i.add(A, E, -1)
                need = 1 if o == ">=" else 0
                if not d[1] and d[0] >= need:
                    ok = True
            if ok:
                stat.discharged += 1
                stat.sample({"site": fn.where(i), "function": fn.name, "request": fn.txt(nd["c"][2])[:40]})
            else:
                res.add(Finding("C01", "C01.c3.growth-request-too-small", fn.name, "sexp_grow_stack(%s)" % fn.txt(nd["c"][2])[:30],
                                fn.where(i), "%s asks sexp_grow_stack for %s slots %s: the new stack need not hold what is pushed "
                                "next, and the copy runs past the end of the stack object"
                                % (fn.name, fn.txt(nd["c"][2])[:40],
                                   "although the test that led here compared a larger quantity with the stack length" if seen_cmp
                                   else "without a dominating comparison of the needed size with the stack length"), unit=fn.unit.display))
    g = prog.func("sexp_grow_stack")
    if g is None or not found:
        raise AnalysisBroken("anchor vanished: sexp_grow_stack / its call sites")
    if len(g.params) >= 2:
        pos = elem_positions(g)
        mp = g.params[1]
        kills = {(b.id, len(b.elems)) for b in g.blocks.values() if b.cond is not None and mp in g.refs_in(b.cond)}
        rets = [j for j, x in enumerate(g.nodes) if x["k"] == "ret" and x.get("c") and g.const_val(x["c"][0]) not in (0, None)]
        for j, x in enumerate(g.nodes):
            if x["k"] == "bin" and x["o"] == "=" and g.const_val(x["c"][1]) is not None:
                l = g.strip(x["c"][0])
                if g.nodes[l]["k"] == "ref" and g.vars[g.nodes[l].get("d", 0)]["n"] == "new_size":
                    stat.sites += 1
                    stat.obligations += 1
                    pj = enclosing_elem(g, j, pos)
                    bad = False
                    cval = g.const_val(x["c"][1])
                    # before the clamp only a comparison of min_size with that very limit counts
                    kills_before = {(b.id, len(b.elems)) for b in g.blocks.values()
                                    if b.cond is not None and mp in g.refs_in(b.cond)
                                    and any(g.const_val(t) == cval for t in g.subtree(b.cond))}
                    for rj in rets:
                        pr = enclosing_elem(g, rj, pos)
                        if pj and pr and reach_without(g, (g.entry, -1), pj, kills_before) and reach_without(g, pj, pr, kills):
                            bad = True
                    if bad:
                        res.add(Finding("C01", "C01.c3.limit-below-request", "sexp_grow_stack", "new_size = constant", g.where(j),
                                        "sexp_grow_stack clamps the new size to a constant and can report success on a path that never "
                                        "compares its min_size parameter with that limit: the caller goes on as if the request had "
                                        "been met", unit=g.unit.display))
                    else:
                        stat.discharged += 1
    return stat


def run_c4(prog, res, floor=0):
    """pushing bytes back into a port's buffer stores at buf[--offset]; inside a loop (a data-dependent number of
    bytes) the store must be dominated by a comparison that mentions that offset - the loop's own condition or a
    clamp of the count before it - or the offset runs below zero and the bytes land in front of the buffer, which
    for string and bytevector ports is the object's own data"""
    from cfg import dominators, elem_positions, enclosing_elem, block_reach
    stat = res.stat("C01.c4", "loops that store at buf[--port.offset] are dominated by a comparison involving that offset", floor=floor)
    for fn in prog.all_funcs():
        if not fn.blocks:
            continue
        pos = dom = None
        for i, nd in enumerate(fn.nodes):
            if nd["k"] != "bin" or nd["o"] != "=":
                continue
            l = fn.strip(nd["c"][0])
            if fn.nodes[l]["k"] != "idx":
                continue
            ix = fn.strip(fn.nodes[l]["c"][1])
            xn = fn.nodes[ix]
            if not (xn["k"] == "un" and xn["o"] in ("pre--", "post--")):
                continue
            t = fn.strip(xn["c"][0])
            alias_v = None
            if fn.nodes[t]["k"] == "ref" and "d" in fn.nodes[t] and fn.nodes[t]["d"] not in fn.params:
                # off = port->offset; ... buf[--off] ...; port->offset = off
                from cfg import local_defs as _ld4
                for (_d, r) in _ld4(fn, fn.nodes[t]["d"]):
                    if r is not None and fn.nodes[fn.strip(r)]["k"] == "mem":
                        r_root, r_path = fn.mempath(fn.strip(r))
                        if r_path == ["value", "port", "offset"]:
                            alias_v = fn.nodes[t]["d"]
                            t = fn.strip(r)
            if fn.nodes[t]["k"] != "mem":
                continue
            root, path = fn.mempath(t)
            if path != ["value", "port", "offset"]:
                continue
            pos = pos or elem_positions(fn)
            at = enclosing_elem(fn, i, pos)
            if at is None or at[0] not in block_reach(fn, at[0]):
                continue            # not in a loop: one byte after one read (sexp_push_char)
            # the innermost loop around the store; a loop that also reads from the port (offset++ on the same port)
            # pushes back what it has just consumed
            dom = dom or dominators(fn)
            best = None
            for t in fn.blocks.values():
                for h in t.succs:
                    if h is not None and h >= 0 and (h == t.id or h in dom.get(t.id, ())):
                        body = {h}
                        st = [t.id]
                        while st:
                            x = st.pop()
                            if x in body:
                                continue
                            body.add(x)
                            st.extend(fn.blocks[x].preds)
                        if at[0] in body and (best is None or len(body) < len(best)):
                            best = body
            if best is None:
                continue
            reads = False
            for bid in best:
                for e in fn.blocks[bid].elems:
                    en = fn.nodes[e]
                    if en["k"] == "un" and en["o"] in ("post++", "pre++"):
                        tt = fn.strip(en["c"][0])
                        if fn.nodes[tt]["k"] == "mem":
                            r3, p3 = fn.mempath(tt)
                            if p3 == ["value", "port", "offset"] and fn.txt(r3) == fn.txt(root):
                                reads = True
                    if en["k"] == "call" and en.get("o") in ("sexp_buffered_read_char", "getc"):
                        reads = True
            if reads:
                continue
            stat.sites += 1
            stat.obligations += 1
            dom = dom or dominators(fn)
            owner = fn.txt(root)
            ok = False
            for b in fn.blocks.values():
                if b.cond is None or not (b.id == at[0] or b.id in dom.get(at[0], ())):
                    continue
                for m in fn.subtree(b.cond):
                    mn = fn.nodes[m]
                    if mn["k"] == "mem" and mn.get("o") == "offset":
                        r2, p2 = fn.mempath(m)
                        if p2 == ["value", "port", "offset"] and fn.txt(r2) == owner:
                            ok = True
                    if alias_v is not None and mn["k"] == "ref" and mn.get("d") == alias_v:
                        ok = True
            if ok:
                stat.discharged += 1
                stat.sample({"site": fn.where(i), "function": fn.name})
            else:
                res.add(Finding("C01", "C01.c4.unbounded-pushback", fn.name, "buf[--offset] of %s" % owner, fn.where(i),
                                "%s stores at buf[--offset] of the port %s inside a loop and no comparison involving that offset "
                                "dominates the store: pushing back more bytes than were consumed (a truncated UTF-8 sequence) writes "
                                "in front of the buffer - for a string or bytevector port, over the object's header"
                                % (fn.name, owner), unit=fn.unit.display))
    return stat


def run_c2(prog, res):
    """VM: when the stack cannot be grown (sexp_grow_stack returned 0) the interpreter leaves sexp_apply; it
    must not go on executing - entering the error handler, or any other instruction, pushes onto a stack that
    has just been found too small"""
    from cfg import reach_without, elem_positions
    stat = res.stat("C01.c2", "VM: the failure edge of every stack-growth attempt leads out of sexp_apply without "
                    "reaching the instruction dispatch again", floor=2)
    fn = prog.func("sexp_apply")
    sw = None
    for b in fn.blocks.values():
        if b.term == "SwitchStmt":
            n = sum(1 for s in b.succs if s is not None and s >= 0 and fn.blocks[s].lk == "case")
            if sw is None or n > sw[1]:
                sw = (b, n)
    if sw is None:
        raise AnalysisBroken("anchor vanished: the opcode switch of sexp_apply")
    sw = sw[0]
    # the exit sequence: the labelled block closest to the function's return that every return passes (end_loop).
    # What that sequence does (hand a finished child thread back to the scheduler) is not this rule's business.
    from cfg import dominators
    dom = dominators(fn)
    rets = [b.id for b in fn.blocks.values() if any(fn.nodes[e]["k"] == "ret" for e in b.elems)]
    if not rets:
        raise AnalysisBroken("anchor vanished: sexp_apply has no return")
    common = None
    for r in rets:
        ds = set(dom.get(r, ())) | {r}
        common = ds if common is None else (common & ds)
    labelled = [b for b in common if fn.blocks[b].lk == "label"]
    if not labelled:
        raise AnalysisBroken("anchor vanished: no exit label dominates the return of sexp_apply")
    exit_label = max(labelled, key=lambda b: len(dom.get(b, ())))
    kills = {(exit_label, 0)}
    found = 0
    for b in fn.blocks.values():
        if b.cond is None or len(b.succs) != 2:
            continue
        c = fn.strip(b.cond)
        neg = False
        while fn.nodes[c]["k"] == "un" and fn.nodes[c]["o"] == "!":
            neg = not neg
            c = fn.strip(fn.nodes[c]["c"][0])
        if fn.nodes[c]["k"] != "call" or fn.nodes[c].get("o") != "sexp_grow_stack":
            continue
        found += 1
        stat.sites += 1
        stat.obligations += 1
        fail = b.succs[0] if neg else b.succs[1]
        if fail is None or fail < 0 or fail == exit_label:
            stat.discharged += 1
            continue
        if fail == sw.id or reach_without(fn, (fail, 0), (sw.id, 0), kills):
            res.add(Finding("C01", "C01.c2.continues-on-full-stack", "sexp_apply", "after sexp_grow_stack failed",
                            fn.where(b.cond), "when sexp_grow_stack fails sexp_apply can go on to execute instructions without "
                            "first passing its exit sequence (the dispatch is reachable from the failure branch): the next push - "
                            "for instance the frame of the error handler - is written past the end of the stack object",
                            unit="vm.c"))
        else:
            stat.discharged += 1
            stat.sample({"site": fn.where(b.cond), "verdict": "failure branch goes to the exit sequence of sexp_apply"})
    if not found:
        raise AnalysisBroken("anchor vanished: no test of sexp_grow_stack's result in sexp_apply")
    return stat
