import extract
from rules import c08, common


def run(res, tier, replay=None):
    prog = extract.load_program("default", only={"sexp.c", "eval.c", "io.c", "vm.c"})
    res.functions = sum(1 for _ in prog.all_funcs())
    c08.run(prog, res)
    c08.run_utf8(prog, res)
    c08.run_utf8_boundary(prog, res)
    res.assumptions = common.ASSUMPTIONS + ["Scheme-side tables are read with engine/py/slint.py from lib/srfi/38.scm"]
    res.explanation = (
        "C08, two clauses: (b) every expression that assembles a code point from masked UTF-8 bytes (the reader's character literals, string-ref, read-char, utf8-ref) uses pairwise distinct shifts 6(n-1)..6,0, so all decoders agree on every width class; (c) every branch that chooses between the one-byte path and the UTF-8 routines splits the code points at 0x80 exactly; (a) the escape-letter and character-name tables of the four implementations agree. Native writer "
        "(case arms of the string switch in sexp_write_one), native reader (case arms of sexp_read_string), sexp_char_names "
        "(constant-evaluated initializer), SRFI-38 writer table escaped-chars, SRFI-38 reader table named-chars and the case "
        "clauses of read-escape-sequence are extracted and compared: reader(writer(c)) = c, both readers map the same letters "
        "to the same characters, all name tables contain the same (name, code) pairs. Not decided: shortest float formatting, "
        "symbol quoting, datum labels.")
    if tier == "thorough":
        common.thorough_mutations(res, "C08", {"C08": lambda p, r: (c08.run(p, r, root=p.root), c08.run_utf8(p, r, floor=0), c08.run_utf8_boundary(p, r, floor=0))})
