import extract
from rules import c08, common


def run(res, tier, replay=None):
    prog = extract.load_program("default", only={"sexp.c"})
    res.functions = sum(1 for _ in prog.all_funcs())
    c08.run(prog, res)
    res.assumptions = common.ASSUMPTIONS + ["Scheme-side tables are read with engine/py/slint.py from lib/srfi/38.scm"]
    res.explanation = (
        "C08, one clause: the escape-letter and character-name tables of the four implementations agree. Native writer "
        "(case arms of the string switch in sexp_write_one), native reader (case arms of sexp_read_string), sexp_char_names "
        "(constant-evaluated initializer), SRFI-38 writer table escaped-chars, SRFI-38 reader table named-chars and the case "
        "clauses of read-escape-sequence are extracted and compared: reader(writer(c)) = c, both readers map the same letters "
        "to the same characters, all name tables contain the same (name, code) pairs. Not decided: shortest float formatting, "
        "symbol quoting, datum labels, UTF-8 paths.")
    if tier == "thorough":
        common.thorough_mutations(res, "C08", {"C08": lambda p, r: c08.run(p, r, root=p.root)})
