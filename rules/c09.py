"""C09 - optimisation passes preserve meaning: structural clauses on simplify.c

a. AST-walker agreement for simplify/usedp (rules/c03.py run_a, reported under C09)
b. fold only on success: the literal that replaces a folded application is built only where the
   fold result is known not to be an exception, and the fold runs through
   sexp_apply_no_err_handler (never sexp_apply, which would invoke the user's handler)
c. propagate only unassigned names: a let-bound constant is pushed onto the substitution list
   only under the test that the name is not in the lambda's set-variable list
"""
import tables
from kinds import KindModel, KindAnalysis
from cfg import dominators, elem_positions, enclosing_elem, local_defs
from rules.c19 import edge_dominating_atoms
from report import Finding
from extract import AnalysisBroken


def run_b(prog, res):
    stat = res.stat("C09.b", "constant folding replaces the application only on the non-exception edge of the fold result; "
                    "the fold goes through sexp_apply_no_err_handler", floor=2)
    fn = prog.func("simplify")
    if fn is None:
        raise AnalysisBroken("anchor vanished: simplify (is SEXP_USE_SIMPLIFY off in this configuration?)")
    model = KindModel(prog)
    exc = None
    for r in model.rows:
        if r["_member"] == "exception":
            exc = "t%d" % r["tag"]
    # locals assigned from the fold call
    fold_vars = set()
    direct_apply = []
    for i, nd in enumerate(fn.nodes):
        if nd["k"] == "call" and nd.get("o") == "sexp_apply":
            direct_apply.append(i)
        if nd["k"] == "bin" and nd["o"] == "=":
            rhs = fn.strip(nd["c"][1])
            lhs = fn.strip(nd["c"][0])
            if fn.nodes[rhs]["k"] == "call" and fn.nodes[rhs].get("o") == "sexp_apply_no_err_handler" \
                    and fn.nodes[lhs]["k"] == "ref" and "d" in fn.nodes[lhs]:
                fold_vars.add(fn.nodes[lhs]["d"])
    stat.sites += 1
    stat.obligations += 1
    if direct_apply:
        res.add(Finding("C09", "C09.b.fold-through-apply", "simplify", "sexp_apply", fn.where(direct_apply[0]),
                        "simplify calls sexp_apply directly: a fold that raises would run the program's exception handler at "
                        "compile time", unit="simplify.c"))
        return stat
    elif not fold_vars:
        raise AnalysisBroken("anchor vanished: simplify no longer folds through sexp_apply_no_err_handler")
    else:
        stat.discharged += 1
    ka = KindAnalysis(model, fn, {v: model.U for v in fold_vars})
    ka.sticky = set(fold_vars)
    lits = []
    for i, nd in enumerate(fn.nodes):
        if nd["k"] == "call" and nd.get("o") == "sexp_make_lit":
            for a in nd["c"][1:]:
                a0 = fn.strip(a)
                if fn.nodes[a0]["k"] == "ref" and fn.nodes[a0].get("d") in fold_vars:
                    ka.probes[i] = a0
                    lits.append(i)
    if not lits:
        raise AnalysisBroken("anchor vanished: simplify builds no literal from the fold result")
    ka.run()
    for i in lits:
        stat.sites += 1
        stat.obligations += 1
        ks = ka.probe_results.get(i)
        if ks is not None and exc not in ks:
            stat.discharged += 1
            stat.sample({"site": fn.where(i), "literal_from": fn.txt(ka.probes[i]), "kinds_there": model.describe(ks)[:80],
                         "verdict": "exception excluded on every path"})
        else:
            res.add(Finding("C09", "C09.b.fold-without-check", "simplify", "sexp_make_lit(%s)" % fn.txt(ka.probes[i]),
                            fn.where(i), "the folded application is replaced by a literal built from `%s` on a path where it may "
                            "still be an exception object: a program that would raise at run time (e.g. (/ 1 0)) instead "
                            "evaluates to the exception as a constant" % fn.txt(ka.probes[i]), unit="simplify.c"))
    return stat


def run_c(prog, res):
    stat = res.stat("C09.c", "let-constant propagation pushes onto the substitution list only under "
                    "`name not in the lambda's set-variable list`", floor=1)
    fn = prog.func("simplify")
    if fn is None:
        raise AnalysisBroken("anchor vanished: simplify")
    subst = [i for i, v in enumerate(fn.vars) if v["n"] == "substs"]
    if not subst:
        raise AnalysisBroken("anchor vanished: simplify's substs")
    sv_vars = set()
    for i, nd in enumerate(fn.nodes):
        if nd["k"] == "bin" and nd["o"] == "=":
            lhs, rhs = fn.strip(nd["c"][0]), fn.strip(nd["c"][1])
            if fn.nodes[lhs]["k"] == "ref" and "d" in fn.nodes[lhs] and fn.nodes[rhs]["k"] == "mem":
                root, path = fn.mempath(rhs)
                if path == ["value", "lambda", "sv"]:
                    sv_vars.add(fn.nodes[lhs]["d"])
    pos = elem_positions(fn)
    dom = dominators(fn)
    pushes = []
    for i, nd in enumerate(fn.nodes):
        if nd["k"] == "bin" and nd["o"] == "=":
            lhs, rhs = fn.strip(nd["c"][0]), fn.strip(nd["c"][1])
            if fn.nodes[lhs]["k"] == "ref" and fn.nodes[lhs].get("d") in subst and fn.nodes[rhs]["k"] == "call" \
                    and fn.nodes[rhs].get("o") == "sexp_cons_op":
                pushes.append(i)
        if nd["k"] == "call" and nd.get("o") == "sexp_push_op" and len(nd["c"]) > 2:
            a = fn.strip(nd["c"][2])
            if fn.nodes[a]["k"] == "un" and fn.nodes[a]["o"] == "&":
                x = fn.strip(fn.nodes[a]["c"][0])
                if fn.nodes[x]["k"] == "ref" and fn.nodes[x].get("d") in subst:
                    pushes.append(i)
    if not pushes:
        raise AnalysisBroken("anchor vanished: simplify no longer extends substs")
    for i in pushes:
        stat.sites += 1
        stat.obligations += 1
        here = enclosing_elem(fn, i, pos)
        ok = False
        for (a, pol) in edge_dominating_atoms(fn, here, dom):
            an = fn.nodes[a]
            if an["k"] == "bin" and an["o"] in ("==", "!="):
                l, r = fn.strip(an["c"][0]), fn.strip(an["c"][1])
                for x, y in ((l, r), (r, l)):
                    if fn.nodes[x]["k"] == "call" and fn.nodes[x].get("o") == "sexp_memq_op" and \
                            fn.const_val(y) == tables.SEXP_FALSE_WORD and (fn.refs_in(x) & sv_vars):
                        if (an["o"] == "==") == pol:
                            ok = True
        if ok:
            stat.discharged += 1
            stat.sample({"site": fn.where(i), "push": fn.txt(i)[:70], "guard": "sexp_memq(name, sv) == #f dominates"})
        else:
            res.add(Finding("C09", "C09.c.propagate-assigned", "simplify", "substs push", fn.where(i),
                            "a let binding is added to the substitution list without the dominating test that its name is "
                            "not in the lambda's set-variable list: a variable that is later assigned would be replaced by its "
                            "initial constant", unit="simplify.c"))
    return stat


# ------------------------------------------------------------------ C09.d
# The optimiser rewrites the AST; it does not compute with the program's values itself and it keeps
# quoted data wrapped.  Taint: (1) the value unwrapped from a Lit node, (2) the result of the
# unchecked fixnum arithmetic macros (which wrap around where the VM promotes to a bignum).  Sinks:
# stores into AST node fields and the rewritten AST the function returns.

AST_MEMBERS = ("cnd", "lambda", "set", "seq", "ref", "synclo")
FX_MACROS = ("sexp_fx_add", "sexp_fx_sub", "sexp_fx_mul", "sexp_fx_div", "sexp_fx_rem", "sexp_fx_neg", "sexp_fx_abs",
             "sexp_fx_sign")


def run_d(prog, res, floor=6):
    stat = res.stat("C09.d", "in the simplifier no value unwrapped from a literal node and no result of unchecked fixnum "
                    "arithmetic reaches an AST slot or the rewritten AST that is returned (folding goes through the VM)",
                    floor=floor)
    u = prog.unit("simplify.c")
    if u is None:
        raise AnalysisBroken("anchor vanished: simplify.c")
    for fn in u.functions.values():
        if not fn.blocks or fn.ret_type != tables.SEXP_T:
            continue

        def source(n):
            """why expression n carries a raw value, or None"""
            n = fn.strip(n)
            nd = fn.nodes[n]
            k = nd["k"]
            ms = fn.macros(n) or ()
            if k == "bin" and any(m in FX_MACROS for m in ms) and nd["o"] in ("+", "-", "*", "/", "|", "&", "<<", ">>"):
                return "the result of %s" % [m for m in ms if m in FX_MACROS][0]
            if k == "mem":
                _o, path = fn.mempath(n)
                if path == ["value", "lit", "value"]:
                    return "the value unwrapped from a literal node"
                return None
            if k == "cond":
                return source(nd["c"][1]) or source(nd["c"][2])
            if k == "bin" and nd["o"] == "=":
                return source(nd["c"][1])
            if k == "bin" and nd["o"] == ",":
                return source(nd["c"][1])
            if k == "ref" and nd.get("d") in tainted:
                return tainted[nd["d"]]
            return None
        tainted = {}
        changed = True
        while changed:
            changed = False
            for vid in range(len(fn.vars)):
                if vid in tainted or vid in fn.params:
                    continue
                for (_d, rhs) in local_defs(fn, vid):
                    if rhs is not None:
                        why = source(rhs)
                        if why:
                            tainted[vid] = why + " (through `%s`)" % fn.vars[vid]["n"]
                            changed = True
                            break
        for i, nd in enumerate(fn.nodes):
            if nd["k"] == "bin" and nd["o"] == "=":
                l = fn.strip(nd["c"][0])
                if fn.nodes[l]["k"] != "mem":
                    continue
                _o, path = fn.mempath(l)
                if len(path) == 3 and path[0] == "value" and path[1] in AST_MEMBERS:
                    stat.sites += 1
                    stat.obligations += 1
                    why = source(nd["c"][1])
                    if why:
                        res.add(Finding("C09", "C09.d.raw-value-in-ast", fn.name, "%s.%s" % (path[1], path[2]), fn.where(i),
                                        "%s stores %s into the %s.%s slot of an AST node: the code generator reads a raw pair "
                                        "there as an application and a wrapped-around fixnum as the constant" %
                                        (fn.name, why, path[1], path[2]), unit="simplify.c"))
                    else:
                        stat.discharged += 1
            elif nd["k"] == "ret" and nd.get("c"):
                stat.sites += 1
                stat.obligations += 1
                why = source(nd["c"][0])
                if why:
                    res.add(Finding("C09", "C09.d.raw-value-in-ast", fn.name, "returned AST", fn.where(i),
                                    "%s returns %s as the rewritten AST: the optimised program computes with a value the VM "
                                    "would not have produced (no overflow to bignum, no literal wrapper)" % (fn.name, why),
                                    unit="simplify.c"))
                else:
                    stat.discharged += 1
    return stat
