"""C09 - optimisation passes preserve meaning: structural clauses on simplify.c

a. AST-walker agreement for simplify/usedp (rules/c03.py run_a, reported under C09)
b. fold only on success: the literal that replaces a folded application is built only where the
   fold result is known not to be an exception, and the fold runs through
   sexp_apply_no_err_handler (never sexp_apply, which would invoke the user's handler)
c. propagate only unassigned names: a let-bound constant is pushed onto the substitution list
   only under the test that the name is not in the lambda's set-variable list
"""
import tables
from kinds import KindModel, KindAnalysis
from cfg import dominators, elem_positions, enclosing_elem, local_defs
from rules.c19 import edge_dominating_atoms
from report import Finding
from extract import AnalysisBroken


def run_b(prog, res):
    stat = res.stat("C09.b", "constant folding replaces the application only on the non-exception edge of the fold result; "
                    "the fold goes through sexp_apply_no_err_handler", floor=2)
    if prog.func("simplify") is None:
        raise AnalysisBroken("anchor vanished: simplify (is SEXP_USE_SIMPLIFY off in this configuration?)")
    unit = prog.func("simplify").unit
    funcs = [f for f in unit.func_list if f.blocks and f.file.endswith("simplify.c")]
    model = KindModel(prog)
    exc = None
    for r in model.rows:
        if r["_member"] == "exception":
            exc = "t%d" % r["tag"]
    # the fold may live in simplify() itself or in a helper of the same file; a helper that hands the fold
    # result back makes its own result a fold result
    sources = {"sexp_apply_no_err_handler"}
    fold_vars = {}
    changed = True
    while changed:
        changed = False
        for fn in funcs:
            fv = set()
            for nd in fn.nodes:
                if nd["k"] == "bin" and nd["o"] == "=":
                    rhs, lhs = fn.strip(nd["c"][1]), fn.strip(nd["c"][0])
                    if fn.nodes[rhs]["k"] == "call" and fn.nodes[rhs].get("o") in sources \
                            and fn.nodes[lhs]["k"] == "ref" and "d" in fn.nodes[lhs]:
                        fv.add(fn.nodes[lhs]["d"])
            fold_vars[fn.name] = fv
            if fn.name not in sources and fn.name != "simplify":
                for nd in fn.nodes:
                    if nd["k"] == "ret" and nd.get("c") and (fn.refs_in(nd["c"][0]) & fv):
                        sources.add(fn.name)
                        changed = True
                        break
    stat.sites += 1
    stat.obligations += 1
    for fn in funcs:
        for i, nd in enumerate(fn.nodes):
            if nd["k"] == "call" and nd.get("o") == "sexp_apply":
                res.add(Finding("C09", "C09.b.fold-through-apply", fn.name, "sexp_apply", fn.where(i),
                                "%s calls sexp_apply directly: a fold that raises would run the program's exception handler at "
                                "compile time" % fn.name, unit="simplify.c"))
                return stat
    if not any(fold_vars.values()):
        raise AnalysisBroken("anchor vanished: simplify no longer folds through sexp_apply_no_err_handler")
    stat.discharged += 1
    nlits = 0
    for fn in funcs:
        fv = fold_vars.get(fn.name)
        if not fv:
            continue
        ka = KindAnalysis(model, fn, {v: model.U for v in fv})
        ka.sticky = set(fv)
        lits = []
        for i, nd in enumerate(fn.nodes):
            if nd["k"] == "call" and nd.get("o") == "sexp_make_lit":
                for a in nd["c"][1:]:
                    a0 = fn.strip(a)
                    if fn.nodes[a0]["k"] == "ref" and fn.nodes[a0].get("d") in fv:
                        ka.probes[i] = a0
                        lits.append(i)
        if not lits:
            continue
        nlits += len(lits)
        ka.run()
        for i in lits:
            stat.sites += 1
            stat.obligations += 1
            ks = ka.probe_results.get(i)
            if ks is not None and exc not in ks:
                stat.discharged += 1
                stat.sample({"site": fn.where(i), "literal_from": fn.txt(ka.probes[i]), "kinds_there": model.describe(ks)[:80],
                             "verdict": "exception excluded on every path"})
            else:
                res.add(Finding("C09", "C09.b.fold-without-check", fn.name, "sexp_make_lit(%s)" % fn.txt(ka.probes[i]),
                                fn.where(i), "the folded application is replaced by a literal built from `%s` on a path where it may "
                                "still be an exception object: a program that would raise at run time (e.g. (/ 1 0)) instead "
                                "evaluates to the exception as a constant" % fn.txt(ka.probes[i]), unit="simplify.c"))
    if not nlits:
        raise AnalysisBroken("anchor vanished: simplify builds no literal from the fold result")
    return stat


def run_b2(prog, res, floor=1):
    """the handler-free application the fold relies on really is handler-free: every place sexp_apply_no_err_handler
    saves (the thread parameters, the global handler cell) is overwritten with a constant before sexp_apply runs"""
    from cfg import block_reach
    stat = res.stat("C09.b2", "sexp_apply_no_err_handler clears every handler source it saves before it applies", floor=floor)
    fn = prog.func("sexp_apply_no_err_handler")
    if fn is None:
        raise AnalysisBroken("anchor vanished: sexp_apply_no_err_handler")
    pos = elem_positions(fn)
    calls = [i for i, nd in enumerate(fn.nodes) if nd["k"] == "call" and nd.get("o") == "sexp_apply"]
    if not calls:
        raise AnalysisBroken("anchor vanished: sexp_apply_no_err_handler no longer calls sexp_apply")
    cpos = enclosing_elem(fn, calls[0], pos)
    # saves: local = <memory lvalue>, where the same lvalue is stored from that local after the call (the restore)
    saves = []
    for i, nd in enumerate(fn.nodes):
        if nd["k"] == "bin" and nd["o"] == "=":
            l, r = fn.strip(nd["c"][0]), fn.strip(nd["c"][1])
            if fn.nodes[l]["k"] == "ref" and "d" in fn.nodes[l]:
                # the saved lvalue may sit in the arm of a conditional expression (p ? cdr(cell) : #f)
                cands = [r] + ([fn.strip(c) for c in fn.nodes[r]["c"][1:]] if fn.nodes[r]["k"] == "cond" else [])
                for m in cands:
                    if fn.nodes[m]["k"] == "mem":
                        saves.append((fn.nodes[l]["d"], fn.txt(m), i))
    def before(p):
        return p is not None and (p[0] == cpos[0] and p[1] < cpos[1] or (p[0] != cpos[0] and cpos[0] in block_reach(fn, p[0])
                                                                         and p[0] not in block_reach(fn, cpos[0])))
    for (vid, lv, at) in saves:
        restored = cleared = False
        for j, nd in enumerate(fn.nodes):
            if nd["k"] != "bin" or nd["o"] != "=":
                continue
            l, r = fn.strip(nd["c"][0]), fn.strip(nd["c"][1])
            if fn.txt(l) != lv:
                continue
            pj = enclosing_elem(fn, j, pos)
            if fn.nodes[r]["k"] == "ref" and fn.nodes[r].get("d") == vid and not before(pj):
                restored = True
            if fn.const_val(r) is not None and before(pj):
                cleared = True
        if not restored:
            continue        # not a save/restore pair
        stat.sites += 1
        stat.obligations += 1
        if cleared:
            stat.discharged += 1
            stat.sample({"saved": lv, "verdict": "overwritten with a constant before sexp_apply, restored afterwards"})
        else:
            res.add(Finding("C09", "C09.b2.handler-left-installed", fn.name, lv, fn.where(at),
                            "sexp_apply_no_err_handler saves and restores %s but does not clear it before calling sexp_apply: "
                            "the application (the simplifier's compile-time fold) runs under the program's exception handler, so "
                            "a fold that raises invokes user code at compile time" % lv, unit=fn.unit.display))
    return stat


def run_c(prog, res):
    stat = res.stat("C09.c", "let-constant propagation pushes onto the substitution list only under "
                    "`name not in the lambda's set-variable list`", floor=1)
    fn = prog.func("simplify")
    if fn is None:
        raise AnalysisBroken("anchor vanished: simplify")
    subst = [i for i, v in enumerate(fn.vars) if v["n"] == "substs"]
    if not subst:
        raise AnalysisBroken("anchor vanished: simplify's substs")
    sv_vars = set()
    for i, nd in enumerate(fn.nodes):
        if nd["k"] == "bin" and nd["o"] == "=":
            lhs, rhs = fn.strip(nd["c"][0]), fn.strip(nd["c"][1])
            if fn.nodes[lhs]["k"] == "ref" and "d" in fn.nodes[lhs] and fn.nodes[rhs]["k"] == "mem":
                root, path = fn.mempath(rhs)
                if path == ["value", "lambda", "sv"]:
                    sv_vars.add(fn.nodes[lhs]["d"])
    pos = elem_positions(fn)
    dom = dominators(fn)
    pushes = []
    for i, nd in enumerate(fn.nodes):
        if nd["k"] == "bin" and nd["o"] == "=":
            lhs, rhs = fn.strip(nd["c"][0]), fn.strip(nd["c"][1])
            if fn.nodes[lhs]["k"] == "ref" and fn.nodes[lhs].get("d") in subst and fn.nodes[rhs]["k"] == "call" \
                    and fn.nodes[rhs].get("o") == "sexp_cons_op":
                pushes.append(i)
        if nd["k"] == "call" and nd.get("o") == "sexp_push_op" and len(nd["c"]) > 2:
            a = fn.strip(nd["c"][2])
            if fn.nodes[a]["k"] == "un" and fn.nodes[a]["o"] == "&":
                x = fn.strip(fn.nodes[a]["c"][0])
                if fn.nodes[x]["k"] == "ref" and fn.nodes[x].get("d") in subst:
                    pushes.append(i)
    if not pushes:
        raise AnalysisBroken("anchor vanished: simplify no longer extends substs")
    for i in pushes:
        stat.sites += 1
        stat.obligations += 1
        here = enclosing_elem(fn, i, pos)
        ok = False
        for (a, pol) in edge_dominating_atoms(fn, here, dom):
            an = fn.nodes[a]
            if an["k"] == "bin" and an["o"] in ("==", "!="):
                l, r = fn.strip(an["c"][0]), fn.strip(an["c"][1])
                for x, y in ((l, r), (r, l)):
                    if fn.nodes[x]["k"] == "call" and fn.nodes[x].get("o") == "sexp_memq_op" and \
                            fn.const_val(y) == tables.SEXP_FALSE_WORD and (fn.refs_in(x) & sv_vars):
                        if (an["o"] == "==") == pol:
                            ok = True
        if ok:
            stat.discharged += 1
            stat.sample({"site": fn.where(i), "push": fn.txt(i)[:70], "guard": "sexp_memq(name, sv) == #f dominates"})
        else:
            res.add(Finding("C09", "C09.c.propagate-assigned", "simplify", "substs push", fn.where(i),
                            "a let binding is added to the substitution list without the dominating test that its name is "
                            "not in the lambda's set-variable list: a variable that is later assigned would be replaced by its "
                            "initial constant", unit="simplify.c"))
    return stat


# ------------------------------------------------------------------ C09.d
# The optimiser rewrites the AST; it does not compute with the program's values itself and it keeps
# quoted data wrapped.  Taint: (1) the value unwrapped from a Lit node, (2) the result of the
# unchecked fixnum arithmetic macros (which wrap around where the VM promotes to a bignum).  Sinks:
# stores into AST node fields and the rewritten AST the function returns.

AST_MEMBERS = ("cnd", "lambda", "set", "seq", "ref", "synclo")
FX_MACROS = ("sexp_fx_add", "sexp_fx_sub", "sexp_fx_mul", "sexp_fx_div", "sexp_fx_rem", "sexp_fx_neg", "sexp_fx_abs",
             "sexp_fx_sign")


def run_d(prog, res, floor=6):
    stat = res.stat("C09.d", "in the simplifier no value unwrapped from a literal node and no result of unchecked fixnum "
                    "arithmetic reaches an AST slot or the rewritten AST that is returned (folding goes through the VM)",
                    floor=floor)
    u = prog.unit("simplify.c")
    if u is None:
        raise AnalysisBroken("anchor vanished: simplify.c")
    for fn in u.functions.values():
        if not fn.blocks or fn.ret_type != tables.SEXP_T:
            continue

        def source(n):
            """why expression n carries a raw value, or None"""
            n = fn.strip(n)
            nd = fn.nodes[n]
            k = nd["k"]
            ms = fn.macros(n) or ()
            if k == "bin" and any(m in FX_MACROS for m in ms) and nd["o"] in ("+", "-", "*", "/", "|", "&", "<<", ">>"):
                return "the result of %s" % [m for m in ms if m in FX_MACROS][0]
            if k == "mem":
                _o, path = fn.mempath(n)
                if path == ["value", "lit", "value"]:
                    return "the value unwrapped from a literal node"
                return None
            if k == "cond":
                return source(nd["c"][1]) or source(nd["c"][2])
            if k == "bin" and nd["o"] == "=":
                return source(nd["c"][1])
            if k == "bin" and nd["o"] == ",":
                return source(nd["c"][1])
            if k == "ref" and nd.get("d") in tainted:
                return tainted[nd["d"]]
            return None
        tainted = {}
        changed = True
        while changed:
            changed = False
            for vid in range(len(fn.vars)):
                if vid in tainted or vid in fn.params:
                    continue
                for (_d, rhs) in local_defs(fn, vid):
                    if rhs is not None:
                        why = source(rhs)
                        if why:
                            tainted[vid] = why + " (through `%s`)" % fn.vars[vid]["n"]
                            changed = True
                            break
        for i, nd in enumerate(fn.nodes):
            if nd["k"] == "bin" and nd["o"] == "=":
                l = fn.strip(nd["c"][0])
                if fn.nodes[l]["k"] != "mem":
                    continue
                _o, path = fn.mempath(l)
                if len(path) == 3 and path[0] == "value" and path[1] in AST_MEMBERS:
                    stat.sites += 1
                    stat.obligations += 1
                    why = source(nd["c"][1])
                    if why:
                        res.add(Finding("C09", "C09.d.raw-value-in-ast", fn.name, "%s.%s" % (path[1], path[2]), fn.where(i),
                                        "%s stores %s into the %s.%s slot of an AST node: the code generator reads a raw pair "
                                        "there as an application and a wrapped-around fixnum as the constant" %
                                        (fn.name, why, path[1], path[2]), unit="simplify.c"))
                    else:
                        stat.discharged += 1
            elif nd["k"] == "ret" and nd.get("c"):
                stat.sites += 1
                stat.obligations += 1
                why = source(nd["c"][0])
                if why:
                    res.add(Finding("C09", "C09.d.raw-value-in-ast", fn.name, "returned AST", fn.where(i),
                                    "%s returns %s as the rewritten AST: the optimised program computes with a value the VM "
                                    "would not have produced (no overflow to bignum, no literal wrapper)" % (fn.name, why),
                                    unit="simplify.c"))
                else:
                    stat.discharged += 1
    return stat


# ------------------------------------------------------------------ C09.e: a variable is (name, binder)
def _single_def(fn, n):
    """resolve a local that has exactly one definition to that definition's right-hand side"""
    n = fn.strip(n)
    nd = fn.nodes[n]
    if nd["k"] != "ref" or "d" not in nd or nd["d"] in fn.params:
        return n
    ds = [r for (_d, r) in local_defs(fn, nd["d"])]
    if len(ds) == 1 and ds[0] is not None:
        return fn.strip(ds[0])
    return n


def _field_of(fn, n, path):
    """n is <root>->value.<path...>: the root node, else None"""
    n = fn.strip(n)
    if fn.nodes[n]["k"] != "mem":
        return None
    root, p = fn.mempath(n)
    return fn.strip(root) if p == ["value"] + path else None


def run_e(prog, res, floor=2, units=("simplify.c", "vm.c", "eval.c")):
    """A variable is a (name, binding lambda) pair.  Where the compiler asks whether a variable is assigned -
    membership of a name in a lambda's set-variable list - the list must be the one of the lambda that binds
    that name: for a reference R the sv list of R's own location, for a parameter taken from the parameter list
    of L the sv list of L.  Asking another lambda lets the simplifier substitute (or the generator skip the box
    of) a variable that is assigned."""
    stat = res.stat("C09.e", "set-variable membership tests pair a name with the sv list of the lambda that binds it", floor=floor)
    for fn in prog.all_funcs():
        if fn.unit.name not in units or not fn.blocks:
            continue
        for i, nd in enumerate(fn.nodes):
            if nd["k"] != "call" or nd.get("o") != "sexp_memq_op" or len(nd["c"]) < 6:
                continue
            name, lst = nd["c"][4], nd["c"][5]
            sv = _single_def(fn, lst)
            L = _field_of(fn, sv, ["lambda", "sv"])
            if L is None:
                continue
            L = _single_def(fn, L)
            nm = _single_def(fn, name)
            want = None
            R = _field_of(fn, nm, ["ref", "name"])
            if R is not None:
                # binder of a reference: ref.cell -> cdr  (sexp_ref_loc)
                want = "%s->value.ref.cell->value.pair.cdr" % fn.txt(R)
                how = "the reference %s" % fn.txt(R)
            else:
                P = _field_of(fn, nm, ["pair", "car"])
                if P is not None and fn.nodes[P]["k"] == "ref" and "d" in fn.nodes[P] and fn.nodes[P]["d"] not in fn.params:
                    srcs = set()
                    for (_d, r) in local_defs(fn, fn.nodes[P]["d"]):
                        if r is None:
                            continue
                        b = _field_of(fn, r, ["lambda", "params"])
                        if b is not None:
                            srcs.add(fn.txt(_single_def(fn, b)))
                    if len(srcs) == 1:
                        want = next(iter(srcs))
                        how = "a parameter of %s" % want
            if want is None:
                continue        # a name whose binder this function does not see (handed in by the caller)
            stat.sites += 1
            stat.obligations += 1
            have = fn.txt(L)
            if have == want:
                stat.discharged += 1
                stat.sample({"site": fn.where(i), "function": fn.name, "name_of": how, "sv_of": have})
            else:
                res.add(Finding("C09", "C09.e.sv-of-another-lambda", fn.name, "sv of %s" % have[:40], fn.where(i),
                                "%s asks whether %s is assigned by looking in the set-variable list of %s, not of the lambda "
                                "that binds it (%s): an assigned variable of an outer lambda is taken for immutable and is "
                                "replaced by a snapshot / left unboxed" % (fn.name, how, have, want), unit=fn.unit.display))
    return stat


# ------------------------------------------------------------------ C09.f
def run_f(prog, res, floor=1, units=("simplify.c",)):
    """A literal node is not the value it wraps.  The analyzer wraps every quoted datum in a Lit node (a heap
    object, never #f); where the simplifier decides a branch from a constant test, the variable holding the
    simplified test (a result of the recursive `simplify` call) is a Lit node *or* an immediate.  A truth test
    of that variable itself (`v == SEXP_FALSE`: sexp_not / sexp_truep, directly or as an arm of `c ? x : v`)
    is meaningful only where the Lit case is excluded: every path from the `v = simplify(...)` that defines it
    to the place where v itself is truth-tested passes the false edge of a `sexp_litp(v)` test - otherwise
    `(if '#f a b)` folds to `a`."""
    import tables
    from cfg import elem_positions, enclosing_elem, reach_without
    stat = res.stat("C09.f", "truth tests of a simplified sub-AST that may be a literal node are confined to where the literal case "
                    "is excluded", floor=floor)
    en = dict(tables.enum_values(prog, const_prefix="SEXP_LIT"))
    LIT = en.get("SEXP_LIT")
    if LIT is None:
        raise AnalysisBroken("anchor vanished: SEXP_LIT")
    FALSE = 0x3e

    def var_of(fn, n):
        n = fn.strip(n)
        return fn.nodes[n].get("d") if fn.nodes[n]["k"] == "ref" else None

    def tag_test(fn, n):
        """v if n is `v->tag == SEXP_LIT`"""
        n = fn.strip(n)
        nd = fn.nodes[n]
        if nd["k"] == "bin" and nd["o"] == "==":
            for a, b in ((nd["c"][0], nd["c"][1]), (nd["c"][1], nd["c"][0])):
                if fn.const_val(b) == LIT:
                    a0 = fn.strip(a)
                    if fn.nodes[a0]["k"] == "mem" and fn.nodes[a0].get("o") == "tag":
                        root, path = fn.mempath(a0)
                        if path == ["tag"]:
                            return var_of(fn, root)
        return None

    def ptr_test(fn, n):
        """v if n is `(v & 3) == 0`"""
        n = fn.strip(n)
        nd = fn.nodes[n]
        if nd["k"] == "bin" and nd["o"] == "==" and fn.const_val(nd["c"][1]) == 0:
            a = fn.strip(nd["c"][0])
            if fn.nodes[a]["k"] == "bin" and fn.nodes[a]["o"] == "&" and fn.const_val(fn.nodes[a]["c"][1]) == 3:
                return var_of(fn, fn.nodes[a]["c"][0])
        return None

    def litp_test(fn, n):
        """v if n is exactly the expansion of sexp_litp(v): pointer test && tag test"""
        n = fn.strip(n)
        nd = fn.nodes[n]
        if nd["k"] == "bin" and nd["o"] == "&&":
            return tag_test(fn, nd["c"][1])
        return tag_test(fn, n)

    def tested_vars(fn, n, depth=0):
        """variables whose own value is compared with #f by the comparison operand n"""
        n = fn.strip(n)
        nd = fn.nodes[n]
        if nd["k"] == "ref" and "d" in nd:
            out = [(nd["d"], n)]
            if depth < 2:           # a local that only copies: val = litp(v) ? lit_value(v) : v
                defs = [x["c"][-1] for x in fn.nodes if (x["k"] == "bin" and x["o"] == "=" and var_of(fn, x["c"][0]) == nd["d"])
                        or (x["k"] == "decl" and x.get("d") == nd["d"] and x.get("c"))]
                if len(defs) == 1:
                    out.extend(tested_vars(fn, defs[0], depth + 1))
            return out
        if nd["k"] == "cond":
            out = []
            for c in nd["c"][1:]:
                out.extend(tested_vars(fn, c, depth))
            return out
        return []
    for fn in prog.all_funcs():
        if fn.unit.name not in units or not fn.blocks:
            continue
        excl = {}          # var -> kill positions (entry of the false arm of a sexp_litp(v) test)
        # the CFG splits && / ||: a block ends in one leaf test.  A block is an "excluded" region for v when every
        # edge into it is the false edge of `v->tag == SEXP_LIT` or of the pointer test `(v & 3) == 0` of v
        leaf = {}
        for b in fn.blocks.values():
            if len(b.succs) == 2 and b.elems:
                t = b.elems[-1]
                v = tag_test(fn, t) if tag_test(fn, t) is not None else ptr_test(fn, t)
                if v is not None:
                    leaf[b.id] = (v, tag_test(fn, t) is not None)
        for q, (v, _is_tag) in leaf.items():
            f = fn.blocks[q].succs[1]
            if f is not None and f >= 0 and fn.blocks[q].succs[0] != f:
                excl.setdefault(v, set()).add((q, f))       # false edge of a leaf of sexp_litp(v): v is not a literal node

        def reaches(src, dst, kills, cut):
            """a path from right after position src to position dst that executes no position in kills and takes no edge in cut"""
            kb = {}
            for (b, i) in kills:
                kb.setdefault(b, []).append(i)

            def first_kill_after(b, i):
                ks = [k for k in kb.get(b, ()) if k > i]
                return min(ks) if ks else None
            (sb, si), (db, di) = src, dst
            k = first_kill_after(sb, si)
            if sb == db and si < di and (k is None or k >= di):
                return True
            if k is not None:
                return False
            seen, st = set(), [(sb, x) for x in fn.blocks[sb].succs if x is not None and x >= 0]
            while st:
                a, b = st.pop()
                if (a, b) in cut or b in seen:
                    continue
                seen.add(b)
                k = first_kill_after(b, -1)
                if b == db and (k is None or k >= di):
                    return True
                if k is not None:
                    continue
                st.extend((b, x) for x in fn.blocks[b].succs if x is not None and x >= 0)
            return False
        pos = elem_positions(fn)
        srcs, others = {}, {}
        for i, nd in enumerate(fn.nodes):
            if nd["k"] == "bin" and nd["o"] == "=":
                v = var_of(fn, nd["c"][0])
                if v is None:
                    continue
                r = fn.strip(nd["c"][1])
                e = enclosing_elem(fn, i, pos)
                if e is None:
                    continue
                if fn.nodes[r]["k"] == "call" and fn.nodes[r].get("o") == fn.name:
                    srcs.setdefault(v, []).append((i, e))
                else:
                    others.setdefault(v, set()).add(e)
        if not srcs:
            continue
        for i, nd in enumerate(fn.nodes):
            if nd["k"] != "bin" or nd["o"] not in ("==", "!="):
                continue
            uses = []
            for a, b in ((nd["c"][0], nd["c"][1]), (nd["c"][1], nd["c"][0])):
                if fn.const_val(b) == FALSE:
                    uses = [(v, n) for (v, n) in tested_vars(fn, a) if v in srcs]
            for (v, n) in uses:
                p = enclosing_elem(fn, n, pos) or enclosing_elem(fn, i, pos)
                if p is None:
                    continue
                stat.sites += 1
                stat.obligations += 1
                bad = None
                for (si, se) in srcs[v]:
                    kills = others.get(v, set()) | {e for (_j, e) in srcs[v] if e != se}
                    if reaches(se, p, kills, excl.get(v, set())):
                        bad = si
                        break
                if bad is None:
                    stat.discharged += 1
                    stat.sample({"function": fn.name, "variable": fn.vars[v]["n"], "truth_test": fn.where(i),
                                 "literal_tests_excluding": len(excl.get(v, ()))})
                else:
                    res.add(Finding("C09", "C09.f.truth-test-of-literal-node", fn.name, "truth test of %s" % fn.vars[v]["n"], fn.where(i),
                                    "%s compares `%s` itself with #f, and a path from `%s` (%s) arrives there without having excluded "
                                    "that it is a literal node (false edge of a sexp_litp test): a Lit node is a heap object and never "
                                    "#f, so a quoted false constant - `(if '#f a b)`, or a never-assigned `(let ((flag '#f)) (if flag a "
                                    "b))` after substitution - is folded to the wrong branch; the wrapped value (sexp_lit_value) is what "
                                    "must be tested" % (fn.name, fn.vars[v]["n"], fn.txt(bad)[:50], fn.where(bad)), unit=fn.unit.display))
    return stat
