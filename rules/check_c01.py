import extract
import callgraph
from rules import c01, c01i, c01p, c01s, c01t, c01u, recursion, bufbudget, common

# entry points whose recursion is driven by user-shaped data (reader, writer, equal?, eval, strip)
C01_RECURSION_ROOTS = ["sexp_read_op", "sexp_write_op", "sexp_equalp_op", "sexp_eval_op", "sexp_analyze",
                       "sexp_string_to_number_op", "sexp_strip_synclos", "sexp_load_op", "sexp_compile_op"]


def run(res, tier, replay=None):
    prog = extract.load_program("default")
    res.functions = sum(1 for _ in prog.all_funcs())
    cg = callgraph.CallGraph(prog)
    c01.run_b(prog, res, advisory_filter=c01.scope_filter())
    c01.check_dispatchers(prog, res)
    c01.witnesses_b(prog, res)
    recursion.run(prog, res, "C01", "C01.f", roots=C01_RECURSION_ROOTS, floor=8, cg=cg)
    c01.run_a(prog, res)
    c01.run_d(prog, res)
    c01.run_g(prog, res)
    c01.run_c1(prog, res)
    c01.run_c2(prog, res)
    c01.run_c3(prog, res)
    c01.run_c4(prog, res)
    bufbudget.run(prog, res, "C01", "C01.h", {"sexp.c"}, floor=2)
    prims = c01.primitives(prog)
    c01i.run(prog, res, floor=12, prims=prims, advisory_filter=c01.scope_filter())
    c01i.run_views(prog, res, floor=3, prims=prims, advisory_filter=c01.scope_filter())
    c01i.run_extents(prog, res, floor=2, prims=prims, advisory_filter=c01.scope_filter())
    c01i.run_alloc(prog, res, floor=3, prims=prims, advisory_filter=c01.scope_filter())
    c01i.run_raise(prog, res, floor=2)
    c01i.witnesses(prog, res)
    c01p.run(prog, res, floor=10, entry_names=prims, advisory=c01p.library_scope())
    c01p.run_q(prog, res)
    c01p.run_r(prog, res)
    c01s.run(prog, res, floor=20)
    c01t.run(prog, res)
    c01u.run(prog, res)
    if tier == "thorough":
        flt = c01.scope_filter()
        common.thorough_mutations(res, "C01", {
            "C01.b": lambda p, r: c01.run_b(p, r, advisory_filter=flt, floor=0),
            "C01.f": lambda p, r: recursion.run(p, r, "C01", "C01.f", roots=C01_RECURSION_ROOTS, floor=0),
            "C01.g": lambda p, r: c01.run_g(p, r, floor=0),
            "C01.a": lambda p, r: c01.run_a(p, r),
            "C01.d": lambda p, r: c01.run_d(p, r),
            "C01.c1": lambda p, r: c01.run_c1(p, r),
            "C01.c2": lambda p, r: c01.run_c2(p, r),
            "C01.c3": lambda p, r: c01.run_c3(p, r, floor=0),
            "C01.c4": lambda p, r: c01.run_c4(p, r, floor=0),
            "C01.h": lambda p, r: bufbudget.run(p, r, "C01", "C01.h", {"sexp.c"}, floor=0),
            "C01.i": lambda p, r: c01i.run(p, r, floor=0, prims=c01.primitives(p), advisory_filter=flt),
            "C01.j": lambda p, r: c01i.run_views(p, r, floor=0, prims=c01.primitives(p), advisory_filter=flt),
            "C01.k": lambda p, r: c01i.run_extents(p, r, floor=0, prims=c01.primitives(p), advisory_filter=flt),
            "C01.m": lambda p, r: c01i.run_alloc(p, r, floor=0, prims=c01.primitives(p), advisory_filter=flt),
            "C01.n": lambda p, r: c01i.run_raise(p, r, floor=0),
            "C01.p": lambda p, r: c01p.run(p, r, floor=0, entry_names=c01.primitives(p), advisory=c01p.library_scope(p.root)),
            "C01.q": lambda p, r: c01p.run_q(p, r),
            "C01.r": lambda p, r: c01p.run_r(p, r, floor=0),
            "C01.s": lambda p, r: c01s.run(p, r, floor=0),
            "C01.t": lambda p, r: c01t.run(p, r, floor=0),
            "C01.u": lambda p, r: c01u.run(p, r, floor=0),
        })
    if tier == "thorough":
        # after the mutation witnesses: findings of other configurations must not count as their baseline
        common.config_matrix(res, lambda p, r: (c01.run_b(p, r, floor=0), c01.run_a(p, r), c01.run_d(p, r),
                                                  c01i.run(p, r, floor=0, prims=c01.primitives(p))), violation=False)
    res.assumptions = common.ASSUMPTIONS
    res.explanation = (
        "C01, structural clauses only. (b) kind-set dataflow: every typed access on a parameter of a C primitive "
        "(opcodes[] functions and sexp_define_foreign registrations; arguments of foreign calls are not checked by the VM) "
        "or on a value loaded from a user-controlled pair/vector is dominated by tag tests that leave only tags whose type row "
        "describes the accessed union member; Scope A (violations) = VM primitives and primitives whose registered name is "
        "exported through R7RS-small library chains (resolved from the .sld graph) + (scheme bytevector); others advisory. "
        "(f) every direct-recursion cycle reachable from reader/writer/equal?/eval passes through a verified depth-parameter "
        "bounder or a listed by-construction bounder. (a) every opcode that can be emitted or is exposed by opcodes[] has a VM "
        "case and the default arm raises. (d) slot getter/setter rows designate sexp fields. (g) saved context state is restored "
        "on every path. (i) index guards: every subscript / pointer addition into the data of a string, bytevector or vector operand "
        "whose index carries the unboxed value of a program-supplied operand (a sexp parameter, a VM stack slot, a local "
        "defined from one) is preceded on every path by comparisons that imply 0 <= index < length of that same object "
        "(<= for reads of NUL-terminated string bytes); available-comparison dataflow with kills on redefinition and on "
        "stores through the compared lvalues, linear normal forms, pairwise transitivity, unsigned-compare reasoning, "
        "non-negativity summaries of cursor-producing callees; unguarded helper accesses become obligations of their call "
        "sites. (j) string views: writers of (bytes, offset, length) keep offset + length inside the bytes object. "
        "(k) extents: a (pointer into an operand's data, count) pair given to memcpy/memset/fwrite/strncmp in a primitive or VM "
        "arm stays inside the object when offset or count is program-supplied (lengths of fresh objects taken from their allocation). "
        "(m) an allocation size c0 + c1*count with a program-supplied count stays below 2^63 for the largest count the comparisons "
        "in force admit. (n) a VM case that stores the result of a C function which can return an exception object tests it before "
        "dispatching the next instruction (numeric entry points excluded: untested only after fixnum checks). "
        "(c3) every request to grow the VM stack is for at least the quantity whose comparison with the stack length led to it, plus one, and sexp_grow_stack fails when its limit is below the request. (c4) loops that push bytes back into a port buffer (buf[--offset]) are dominated by a comparison involving that offset. (p) every integer division or modulo by the unboxed value of an operand is dominated by a non-zero test; a function "
        "that leaves the test to its callers makes the parameter zero-unsafe and every call site must guard, pass a non-zero "
        "constant or hand the obligation up (SIGFPE kills the process). (q) no immediate constant (SEXP_FALSE, NULL ...) is passed "
        "to a parameter that the callee, or a function it hands the value to, dereferences before testing it. (r) indexes into the "
        "context's type table that carry the unboxed value of a parameter are dominated by 0 <= id < number of types. "
        "(s) a value that sexp_complex_normalize may have turned into a real (the result of a complex helper or of the generic "
        "operations, or a freshly made flonum / ratio) is not passed to a parameter that is read as a complex number without a test. "
        "(t) an application that keeps an opcode object as its head is built only on paths that bound the operand count by "
        "num_args+1 or establish a class whose arm in generate_opcode_app loops over the operands (read from that switch): "
        "the instruction of every other opcode pops a fixed number of values, surplus operands stay on the VM stack behind the "
        "depth bookkeeping and pushes run past the ensured stack size. "
        "(u) along every path of a generating function of vm.c the values pushed by the instructions it emits itself (VM cases that end with top one higher) are covered by its positive calls of sexp_inc_context_depth: max_depth is what sexp_ensure_stack reserves on entry to the procedure. "
        "Not decided: pointer-walking loops, memcpy lengths, the signal-handler table, "
        "the reader's label table (value invariant), reader token buffers beyond C01.h, stack growth sufficiency, OOM paths.")
