import extract
from rules import c01, common


def run(res, tier, replay=None):
    prog = extract.load_program("default")
    res.functions = sum(1 for _ in prog.all_funcs())
    c01.run_b(prog, res, advisory_filter=c01.scope_filter())
    c01.check_dispatchers(prog, res)
    c01.witnesses_b(prog, res)
    res.assumptions = common.ASSUMPTIONS
    res.explanation = "C01 structural clauses"
