"""Growable-buffer budget (a bounded-write clause of C01 / C19, family F2/F6).

Idiom (sexp_read_string, sexp_read_symbol, json_read_string): a loop appends to `buf[i]`, and a
growth guard `if (i + K >= size) { buf = bigger; size *= 2; }` runs once per iteration.  The guard
re-establishes i + K < size, so the iteration may advance `i` by at most K before the guard runs
again (and the terminating `buf[i] = 0` stays in bounds).  The rule finds the guards structurally,
computes the largest advance of `i` over any path from one evaluation of the guard to the next, and
requires it to be <= K.  An advance by a variable is bounded by the largest constant its defining
callee can return (sexp_utf8_char_byte_count: 4)."""
from cfg import local_defs
from report import Finding
from extract import AnalysisBroken


def find_guards(fn):
    """[(block id, index var, K, size var)] for conditions (i + K) >= size whose true branch grows size"""
    out = []
    for b in fn.blocks.values():
        if b.cond is None or len(b.succs) != 2 or b.term != "IfStmt":
            continue
        c = fn.strip(b.cond)
        nd = fn.nodes[c]
        if nd["k"] != "bin" or nd["o"] not in (">=", ">"):
            continue
        l, r = fn.strip(nd["c"][0]), fn.strip(nd["c"][1])
        rn = fn.nodes[r]
        if rn["k"] != "ref" or "d" not in rn:
            continue
        ln = fn.nodes[l]
        ivar, K = None, None
        if ln["k"] == "bin" and ln["o"] == "+":
            a, bb = fn.strip(ln["c"][0]), fn.strip(ln["c"][1])
            if fn.nodes[a]["k"] == "ref" and "d" in fn.nodes[a] and fn.const_val(bb) is not None:
                ivar, K = fn.nodes[a]["d"], fn.const_val(bb)
        elif ln["k"] == "ref" and "d" in ln:
            ivar, K = ln["d"], 0
        if ivar is None:
            continue
        if nd["o"] == ">":
            K -= 1           # i + K > size  ==  i + (K-1) >= size
        sizev = rn["d"]
        # the true branch must enlarge `size`
        t = b.succs[0]
        grows = False
        seen = set()
        st = [t]
        while st and len(seen) < 12:
            x = st.pop()
            if x is None or x < 0 or x in seen:
                continue
            seen.add(x)
            for e in fn.blocks[x].elems:
                n2 = fn.nodes[e]
                if n2["k"] == "bin" and n2["o"] in ("*=", "+=", "=", "<<="):
                    lhs = fn.strip(n2["c"][0])
                    if fn.nodes[lhs]["k"] == "ref" and fn.nodes[lhs].get("d") == sizev:
                        grows = True
                # ... or hands &size to a helper that does
                if n2["k"] == "call":
                    for a in n2["c"][1:]:
                        a0 = fn.strip(a)
                        if fn.nodes[a0]["k"] == "un" and fn.nodes[a0]["o"] == "&":
                            tgt = fn.strip(fn.nodes[a0]["c"][0])
                            if fn.nodes[tgt]["k"] == "ref" and fn.nodes[tgt].get("d") == sizev:
                                grows = True
            st.extend(s for s in fn.blocks[x].succs if s != b.succs[1])
        if grows:
            out.append((b.id, ivar, K, sizev))
    return out


def max_return(prog, fn, name):
    callee = prog.func(name, fn.unit)
    if callee is None:
        return None
    vals = []
    for nd in callee.nodes:
        if nd["k"] == "ret" and nd.get("c"):
            v = callee.const_val(nd["c"][0])
            if v is None:
                return None
            vals.append(v)
    return max(vals) if vals else None


def advance(prog, fn, e, ivar):
    """advance of the index variable by CFG element e: int, None (no effect), or 'unbounded'"""
    nd = fn.nodes[e]
    if nd["k"] == "un" and nd["o"] in ("pre++", "post++"):
        x = fn.strip(nd["c"][0])
        if fn.nodes[x]["k"] == "ref" and fn.nodes[x].get("d") == ivar:
            return 1
    if nd["k"] == "bin" and nd["o"] in ("+=", "="):
        x = fn.strip(nd["c"][0])
        if fn.nodes[x]["k"] == "ref" and fn.nodes[x].get("d") == ivar:
            if nd["o"] == "=":
                return "unbounded"
            v = fn.const_val(nd["c"][1])
            if v is not None:
                return v
            r = fn.strip(nd["c"][1])
            rn = fn.nodes[r]
            if rn["k"] == "ref" and "d" in rn:
                best = None
                for (_d, rhs) in local_defs(fn, rn["d"]):
                    if rhs is None:
                        return "unbounded"
                    rr = fn.strip(rhs)
                    if fn.nodes[rr]["k"] == "call" and fn.nodes[rr].get("o"):
                        m = max_return(prog, fn, fn.nodes[rr]["o"])
                        if m is None:
                            return "unbounded"
                        best = m if best is None else max(best, m)
                    elif fn.const_val(rr) is not None:
                        best = fn.const_val(rr) if best is None else max(best, fn.const_val(rr))
                    else:
                        return "unbounded"
                return best if best is not None else "unbounded"
            return "unbounded"
    return None


def run(prog, res, prop, rule, units, floor=1):
    stat = res.stat(rule, "growable buffers: the index advances by at most K between two evaluations of the guard "
                    "`i + K >= size`", floor=floor)
    for fn in prog.all_funcs():
        if fn.unit.name not in units:
            continue
        for (gb, ivar, K, sizev) in find_guards(fn):
            stat.sites += 1
            stat.obligations += 1
            # longest advance over any path from the guard (either edge) back to the guard
            best = 0
            worst_path = None
            seen = {}
            work = [(s, 0) for s in fn.blocks[gb].succs if s is not None and s >= 0]
            steps = 0
            unbounded = False
            while work and steps < 200000:
                steps += 1
                bid, acc = work.pop()
                if bid == gb:
                    best = max(best, acc)
                    continue
                if bid == fn.exit:
                    continue
                if seen.get(bid, -1) >= acc:
                    continue
                if bid in seen and acc > seen[bid] and acc > 64:
                    unbounded = True       # an inner cycle keeps advancing the index
                    break
                seen[bid] = acc
                a2 = acc
                for e in fn.blocks[bid].elems:
                    adv = advance(prog, fn, e, ivar)
                    if adv == "unbounded":
                        unbounded = True
                    elif adv:
                        a2 += adv
                if unbounded:
                    break
                for s in fn.blocks[bid].succs:
                    if s is not None and s >= 0:
                        work.append((s, a2))
            iname = fn.vars[ivar]["n"]
            if not unbounded and best <= K:
                stat.discharged += 1
                stat.sample({"function": fn.name, "guard": "vm" and "%s + %d >= %s" % (iname, K, fn.vars[sizev]["n"]),
                             "max_advance_per_iteration": best, "where": "%s:%d" % (fn.relfile(), fn.blocks[gb].line)})
            else:
                res.add(Finding(prop, rule + ".budget", fn.name, "%s + %d >= %s" % (iname, K, fn.vars[sizev]["n"]),
                                "%s:%d" % (fn.relfile(), fn.blocks[gb].line),
                                "%s grows its buffer when `%s + %d >= %s`, but one iteration can advance `%s` by %s before the "
                                "guard runs again: the write (or the terminating NUL) can land past the end of the buffer"
                                % (fn.name, iname, K, fn.vars[sizev]["n"], iname,
                                   "an unbounded amount" if unbounded else str(best)), unit=fn.unit.display))
    return stat
