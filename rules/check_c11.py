import extract
import callgraph
from rules import c11, common


def run(res, tier, replay=None):
    prog = extract.load_program("default")
    res.functions = sum(1 for _ in prog.all_funcs())
    c11.run(prog, res, callgraph.CallGraph(prog))
    c11.run_c(prog, res)
    c11.run_d(prog, res)
    c11.run_e(prog, res)
    c11.run_f(prog, res)
    c11.run_g(prog, res)
    res.assumptions = common.ASSUMPTIONS
    res.explanation = (
        "C11, atomicity by construction: pre-emption happens only in the VM loop (fuel countdown), so the lock, unlock, signal, "
        "start, join, terminate, sleep and scheduler primitives are atomic unless they re-enter the VM. (a) whole-program call "
        "graph (function-pointer flow resolved per struct field / parameter): none of them reaches a VM entry point or an "
        "unresolved indirect call once the collector's finalizer edge is cut; (b) the cut is justified on every run: no installed "
        "finalizer reaches the VM or the allocator except through sexp_finalize_port -> sexp_buffered_flush, where the store "
        "openp=0 dominates the flush call and every VM-reaching call inside sexp_buffered_flush is dominated by an openp test. "
        "(c) the Scheme code of (srfi 18) never uses the record setters of the lock/owner/waiter slots (discovered from types.scm), so only the atomic primitives write them. (d) every primitive that queues the current thread as paused stores its event and waitp fields on every path first (wake-ups are matched on event). (e) every store to the run queue's FRONT global is accompanied by a store to its BACK global (reachable from it, or reaching it, with no other FRONT store in between): the two ends of the queue are maintained together. (f) a function that defines the wake-up deadline of a thread it was handed defines it on every path (no deadline of an earlier timed wait survives into an untimed one). (g) every store that ends a thread's wait (waitp = 0) defines the thread's timeoutp flag in the same basic block, because the retry loops of interface.scm ask thread-timeout? right after the resume (one reasoned exemption: the signal runner, which only ever sleeps in thread-sleep!). Not decided: no-lost-wakeup, fairness, schedule independence (behaviour of the scheduler and of interface.scm).")
    if tier == "thorough":
        common.thorough_mutations(res, "C11", {"C11": lambda p, r: (c11.run(p, r), c11.run_c(p, r, root=p.root), c11.run_d(p, r, floor=0), c11.run_e(p, r, floor=0), c11.run_f(p, r, floor=0), c11.run_g(p, r, floor=0))})
