// cfacts - fact extractor for the chibi-scheme static checks (engine E1).
//
// Usage: cfacts --out=FILE.json unit.c -- <compiler flags>
//
// Emits, for one translation unit, a JSON document with
//   * every function that has a body and lives in a non-system file:
//     params/locals, the clang::CFG (setAllAlwaysAdd) as blocks with element
//     node ids in evaluation order, terminator kind/condition, successor ids
//     and case/label information, and a flat table of expression nodes
//     (macro-expanded, type-resolved, constant sub-expressions folded);
//   * every variable with static storage and the tree of its initializer;
//   * record layouts (ASTRecordLayout) and enums of non-system headers.
// Nothing is decided here: rules live in /verif/engine/py and /verif/rules.

#include "clang/AST/ASTConsumer.h"
#include "clang/AST/ASTContext.h"
#include "clang/AST/RecordLayout.h"
#include "clang/AST/RecursiveASTVisitor.h"
#include "clang/Analysis/CFG.h"
#include "clang/Frontend/CompilerInstance.h"
#include "clang/Frontend/FrontendAction.h"
#include "clang/Lex/Lexer.h"
#include "clang/Tooling/CommonOptionsParser.h"
#include "clang/Tooling/Tooling.h"
#include "llvm/Support/CommandLine.h"
#include "llvm/Support/JSON.h"
#include "llvm/Support/raw_ostream.h"

#include <algorithm>
#include <map>
#include <string>
#include <vector>

using namespace clang;
using namespace clang::tooling;

static llvm::cl::OptionCategory Cat("cfacts options");
static llvm::cl::opt<std::string> OutFile("out", llvm::cl::desc("output json"),
                                          llvm::cl::Required,
                                          llvm::cl::cat(Cat));

namespace {

struct Node {
  std::string k;            // kind
  int t = -1;               // type index
  std::vector<int> c;       // children
  unsigned line = 0;
  int m = -1;               // macro stack index
  std::string op;           // operator / name / field
  std::string s;            // extra string (record name, text)
  std::string v;            // integer value as decimal text
  bool hasv = false;
  int decl = -1;            // variable id for refs / decls
  char dk = 0;              // decl kind for refs
  bool rv = false;          // wrapped in an lvalue-to-rvalue conversion
  bool arrow = false;
  std::vector<std::pair<std::string, std::string>> parts; // offsetof/sizeof inside a folded constant
};

class Unit {
public:
  ASTContext &Ctx;
  SourceManager &SM;
  const LangOptions &LO;
  std::vector<std::string> Types;
  std::map<std::string, int> TypeIdx;
  std::vector<std::vector<std::string>> Macros;
  std::map<std::vector<std::string>, int> MacroIdx;
  std::map<const VarDecl *, int> GlobalIds;

  Unit(ASTContext &C) : Ctx(C), SM(C.getSourceManager()), LO(C.getLangOpts()) {}

  int typeIndex(QualType T) {
    std::string s = T.getCanonicalType().getAsString();
    auto it = TypeIdx.find(s);
    if (it != TypeIdx.end()) return it->second;
    int i = Types.size();
    Types.push_back(s);
    TypeIdx[s] = i;
    return i;
  }

  int macroIndex(SourceLocation L) {
    std::vector<std::string> names;
    int guard = 0;
    while (L.isMacroID() && guard++ < 64) {
      std::string n = Lexer::getImmediateMacroName(L, SM, LO).str();
      if (names.empty() || names.back() != n) names.push_back(n);
      L = SM.getImmediateMacroCallerLoc(L);
    }
    if (names.empty()) return -1;
    auto it = MacroIdx.find(names);
    if (it != MacroIdx.end()) return it->second;
    int i = Macros.size();
    Macros.push_back(names);
    MacroIdx[names] = i;
    return i;
  }

  bool inUserFile(SourceLocation L) {
    L = SM.getExpansionLoc(L);
    if (L.isInvalid()) return false;
    if (SM.isInSystemHeader(L)) return false;
    StringRef f = SM.getFilename(L);
    if (f.startswith("/usr/")) return false;
    return true;
  }
  std::string fileOf(SourceLocation L) {
    return SM.getFilename(SM.getExpansionLoc(L)).str();
  }
  unsigned lineOf(SourceLocation L) {
    return SM.getExpansionLineNumber(L);
  }
};

static std::string apToStr(const llvm::APSInt &v) {
  llvm::SmallString<40> s;
  v.toString(s, 10);
  return s.str().str();
}

class FuncSerializer {
public:
  Unit &U;
  std::vector<Node> Nodes;
  std::map<const Stmt *, int> Ids;
  std::map<const VarDecl *, int> VarIds;
  struct VarInfo { std::string name; int type; char kind; unsigned line; };
  std::vector<VarInfo> Vars;

  FuncSerializer(Unit &u) : U(u) {}

  int varId(const VarDecl *V) {
    auto it = VarIds.find(V);
    if (it != VarIds.end()) return it->second;
    int i = Vars.size();
    char kind = 'l';
    if (isa<ParmVarDecl>(V)) kind = 'p';
    else if (V->isStaticLocal()) kind = 's';
    else if (V->hasGlobalStorage()) kind = 'g';
    Vars.push_back({V->getNameAsString(), U.typeIndex(V->getType()), kind,
                    U.lineOf(V->getLocation())});
    VarIds[V] = i;
    return i;
  }

  static SourceLocation anchor(const Stmt *S) {
    if (auto *M = dyn_cast<MemberExpr>(S)) return M->getMemberLoc();
    if (auto *B = dyn_cast<BinaryOperator>(S)) return B->getOperatorLoc();
    if (auto *Un = dyn_cast<UnaryOperator>(S)) return Un->getOperatorLoc();
    if (auto *C = dyn_cast<CallExpr>(S)) return C->getRParenLoc();
    if (auto *A = dyn_cast<ArraySubscriptExpr>(S)) return A->getRBracketLoc();
    if (auto *C = dyn_cast<CStyleCastExpr>(S)) return C->getLParenLoc();
    if (auto *C = dyn_cast<ConditionalOperator>(S)) return C->getQuestionLoc();
    return S->getBeginLoc();
  }

  static std::string memberPath(const Expr *E) {
    std::vector<std::string> p;
    E = E->IgnoreParenCasts();
    while (auto *M = dyn_cast<MemberExpr>(E)) {
      p.push_back(M->getMemberDecl()->getNameAsString());
      E = M->getBase()->IgnoreParenCasts();
    }
    std::string r;
    for (auto it = p.rbegin(); it != p.rend(); ++it) {
      if (!r.empty()) r += ".";
      r += *it;
    }
    return r;
  }

  void collectParts(const Expr *E, Node &N) {
    struct V : RecursiveASTVisitor<V> {
      Node &N;
      V(Node &n) : N(n) {}
      bool VisitOffsetOfExpr(OffsetOfExpr *O) {
        std::string r;
        for (unsigned i = 0; i < O->getNumComponents(); i++) {
          const OffsetOfNode &C = O->getComponent(i);
          if (C.getKind() == OffsetOfNode::Field) {
            if (!r.empty()) r += ".";
            r += C.getField()->getNameAsString();
          }
        }
        N.parts.push_back({"off", r});
        return true;
      }
      bool VisitUnaryExprOrTypeTraitExpr(UnaryExprOrTypeTraitExpr *U) {
        if (U->getKind() != UETT_SizeOf) return true;
        if (U->isArgumentType())
          N.parts.push_back({"szt", U->getArgumentType().getCanonicalType().getAsString()});
        else {
          std::string mp = memberPath(U->getArgumentExpr());
          if (!mp.empty()) N.parts.push_back({"sz", mp});
          else N.parts.push_back({"szt", U->getArgumentExpr()->getType().getCanonicalType().getAsString()});
        }
        return true;
      }
    } v(N);
    v.TraverseStmt(const_cast<Expr *>(E));
  }

  bool tryFold(const Expr *E, Node &N) {
    if (E->isValueDependent()) return false;
    QualType T = E->getType();
    if (!T->isIntegralOrEnumerationType()) return false;
    if (E->HasSideEffects(U.Ctx)) return false;
    Expr::EvalResult R;
    if (!E->EvaluateAsInt(R, U.Ctx, Expr::SE_NoSideEffects)) return false;
    N.v = apToStr(R.Val.getInt());
    N.hasv = true;
    return true;
  }

  int add(const Stmt *S0) {
    if (!S0) return -1;
    const Stmt *S = S0;
    bool rv = false;
    // strip parens and implicit casts, remembering lvalue-to-rvalue
    while (true) {
      if (auto *P = dyn_cast<ParenExpr>(S)) { S = P->getSubExpr(); continue; }
      if (auto *I = dyn_cast<ImplicitCastExpr>(S)) {
        if (I->getCastKind() == CK_LValueToRValue) rv = true;
        S = I->getSubExpr();
        continue;
      }
      if (auto *F = dyn_cast<FullExpr>(S)) { S = F->getSubExpr(); continue; }
      break;
    }
    auto it = Ids.find(S);
    if (it != Ids.end()) {
      if (rv) Nodes[it->second].rv = true;
      return it->second;
    }
    Node N;
    N.rv = rv;
    SourceLocation A = anchor(S);
    N.line = U.lineOf(A);
    N.m = U.macroIndex(A);
    std::vector<const Stmt *> kids;
    if (auto *E = dyn_cast<Expr>(S)) {
      N.t = U.typeIndex(E->getType());
      if (auto *IL = dyn_cast<IntegerLiteral>(E)) {
        N.k = "int";
        N.v = llvm::toString(IL->getValue(), 10, E->getType()->isSignedIntegerType());
        N.hasv = true;
      } else if (auto *CL = dyn_cast<CharacterLiteral>(E)) {
        N.k = "int";
        N.v = std::to_string(CL->getValue());
        N.hasv = true;
        N.s = "char";
      } else if (auto *SL = dyn_cast<StringLiteral>(E)) {
        N.k = "str";
        N.s = SL->getBytes().substr(0, 256).str();
      } else if (auto *FL = dyn_cast<FloatingLiteral>(E)) {
        N.k = "flt";
        char fbuf[64];
        snprintf(fbuf, sizeof fbuf, "%.17g", FL->getValueAsApproximateDouble());
        N.s = fbuf;
      } else if (auto *DR = dyn_cast<DeclRefExpr>(E)) {
        N.k = "ref";
        N.op = DR->getDecl()->getNameAsString();
        if (auto *EC = dyn_cast<EnumConstantDecl>(DR->getDecl())) {
          N.dk = 'e';
          N.v = apToStr(EC->getInitVal());
          N.hasv = true;
        } else if (isa<FunctionDecl>(DR->getDecl())) {
          N.dk = 'f';
        } else if (auto *VD = dyn_cast<VarDecl>(DR->getDecl())) {
          if (VD->hasGlobalStorage() && !VD->isStaticLocal()) {
            N.dk = 'g';
          } else {
            N.decl = varId(VD);
            N.dk = Vars[N.decl].kind;
          }
        } else {
          N.dk = '?';
        }
      } else if (!isa<InitListExpr>(E) && tryFold(E, N)) {
        N.k = "const";
        // keep a short pretty text: which sizeof / which arithmetic
        std::string txt;
        llvm::raw_string_ostream os(txt);
        E->printPretty(os, nullptr, PrintingPolicy(U.LO));
        os.flush();
        if (txt.size() > 160) txt.resize(160);
        N.s = txt;
        collectParts(E, N);
      } else if (auto *M = dyn_cast<MemberExpr>(E)) {
        N.k = "mem";
        N.op = M->getMemberDecl()->getNameAsString();
        N.arrow = M->isArrow();
        if (auto *FD = dyn_cast<FieldDecl>(M->getMemberDecl()))
          N.s = FD->getParent()->getNameAsString();
        kids.push_back(M->getBase());
      } else if (auto *AS = dyn_cast<ArraySubscriptExpr>(E)) {
        N.k = "idx";
        kids.push_back(AS->getBase());
        kids.push_back(AS->getIdx());
      } else if (auto *UO = dyn_cast<UnaryOperator>(E)) {
        N.k = "un";
        N.op = UnaryOperator::getOpcodeStr(UO->getOpcode()).str();
        if (UO->isPostfix()) N.op = "post" + N.op;
        else if (UO->isIncrementDecrementOp()) N.op = "pre" + N.op;
        kids.push_back(UO->getSubExpr());
      } else if (auto *BO = dyn_cast<BinaryOperator>(E)) {
        N.k = "bin";
        N.op = BO->getOpcodeStr().str();
        kids.push_back(BO->getLHS());
        kids.push_back(BO->getRHS());
      } else if (auto *CO = dyn_cast<ConditionalOperator>(E)) {
        N.k = "cond";
        kids.push_back(CO->getCond());
        kids.push_back(CO->getTrueExpr());
        kids.push_back(CO->getFalseExpr());
      } else if (auto *BC = dyn_cast<BinaryConditionalOperator>(E)) {
        N.k = "bcond";
        kids.push_back(BC->getCommon());
        kids.push_back(BC->getFalseExpr());
      } else if (auto *OV = dyn_cast<OpaqueValueExpr>(E)) {
        N.k = "opaque";
        if (OV->getSourceExpr()) kids.push_back(OV->getSourceExpr());
      } else if (auto *CE = dyn_cast<CallExpr>(E)) {
        N.k = "call";
        if (const FunctionDecl *FD = CE->getDirectCallee())
          N.op = FD->getNameAsString();
        kids.push_back(CE->getCallee());
        for (const Expr *Arg : CE->arguments()) kids.push_back(Arg);
      } else if (auto *CS = dyn_cast<ExplicitCastExpr>(E)) {
        N.k = "cast";
        kids.push_back(CS->getSubExpr());
      } else if (auto *IL = dyn_cast<InitListExpr>(E)) {
        N.k = "init";
        const InitListExpr *Sem = IL->isSemanticForm() ? IL : (IL->getSemanticForm() ? IL->getSemanticForm() : IL);
        if (Sem->getType()->isUnionType() && Sem->getInitializedFieldInUnion())
          N.op = Sem->getInitializedFieldInUnion()->getNameAsString();
        for (const Expr *I : Sem->inits()) kids.push_back(I);
      } else if (auto *CLE = dyn_cast<CompoundLiteralExpr>(E)) {
        N.k = "clit";
        kids.push_back(CLE->getInitializer());
      } else if (auto *SE = dyn_cast<StmtExpr>(E)) {
        N.k = "stmtexpr";
        (void)SE;
      } else if (isa<ImplicitValueInitExpr>(E)) {
        N.k = "zero";
      } else if (auto *DIE = dyn_cast<DesignatedInitExpr>(E)) {
        N.k = "dinit";
        kids.push_back(DIE->getInit());
      } else {
        N.k = std::string("x:") + E->getStmtClassName();
        for (const Stmt *K : E->children()) if (K) kids.push_back(K);
      }
    } else if (auto *DS = dyn_cast<DeclStmt>(S)) {
      N.k = "decl";
      // the CFG splits multi-declaration statements; handle both forms
      bool first = true;
      for (const Decl *D : DS->decls()) {
        if (auto *VD = dyn_cast<VarDecl>(D)) {
          if (first) {
            N.decl = varId(VD);
            N.op = VD->getNameAsString();
            N.t = U.typeIndex(VD->getType());
            if (VD->hasInit()) kids.push_back(VD->getInit());
            first = false;
          } else {
            // unsplit multi-decl (should not appear as CFG element)
            N.s += " " + VD->getNameAsString();
          }
        }
      }
      if (first) N.k = "decl-other";
    } else if (auto *RS = dyn_cast<ReturnStmt>(S)) {
      N.k = "ret";
      if (RS->getRetValue()) kids.push_back(RS->getRetValue());
    } else {
      N.k = std::string("s:") + S->getStmtClassName();
    }
    for (const Stmt *K : kids) N.c.push_back(add(K));
    int id = Nodes.size();
    Nodes.push_back(std::move(N));
    Ids[S] = id;
    return id;
  }

  void emitNodes(llvm::json::OStream &J) {
    J.attributeArray("nodes", [&] {
      for (const Node &N : Nodes) {
        J.object([&] {
          J.attribute("k", N.k);
          if (N.t >= 0) J.attribute("t", N.t);
          if (!N.c.empty())
            J.attributeArray("c", [&] { for (int c : N.c) J.value(c); });
          J.attribute("l", (int64_t)N.line);
          if (N.m >= 0) J.attribute("m", N.m);
          if (!N.op.empty()) J.attribute("o", N.op);
          if (!N.s.empty()) J.attribute("s", N.s);
          if (N.hasv) { J.attributeBegin("v"); J.rawValue(N.v); J.attributeEnd(); }
          if (N.decl >= 0) J.attribute("d", N.decl);
          if (N.dk) J.attribute("dk", std::string(1, N.dk));
          if (N.rv) J.attribute("rv", 1);
          if (N.arrow) J.attribute("ar", 1);
          if (!N.parts.empty())
            J.attributeArray("p", [&] {
              for (auto &pr : N.parts)
                J.array([&] { J.value(pr.first); J.value(pr.second); });
            });
        });
      }
    });
    J.attributeArray("vars", [&] {
      for (const VarInfo &V : Vars) {
        J.object([&] {
          J.attribute("n", V.name);
          J.attribute("t", V.type);
          J.attribute("k", std::string(1, V.kind));
          J.attribute("l", (int64_t)V.line);
        });
      }
    });
  }
};

class Consumer : public ASTConsumer {
public:
  void HandleTranslationUnit(ASTContext &Ctx) override {
    Unit U(Ctx);
    std::error_code EC;
    llvm::raw_fd_ostream OS(OutFile, EC);
    if (EC) { llvm::errs() << "cannot open " << OutFile << "\n"; exit(3); }
    llvm::json::OStream J(OS);
    J.objectBegin();
    J.attribute("main_file",
                U.SM.getFileEntryForID(U.SM.getMainFileID())->getName());
    TranslationUnitDecl *TU = Ctx.getTranslationUnitDecl();

    // ---- functions
    J.attributeArray("functions", [&] {
      for (Decl *D : TU->decls()) {
        auto *FD = dyn_cast<FunctionDecl>(D);
        if (!FD || !FD->doesThisDeclarationHaveABody()) continue;
        if (!U.inUserFile(FD->getLocation())) continue;
        emitFunction(U, J, FD);
      }
    });

    // ---- declared-only functions (prototypes) for the call graph
    J.attributeArray("protos", [&] {
      for (Decl *D : TU->decls()) {
        auto *FD = dyn_cast<FunctionDecl>(D);
        if (!FD || FD->doesThisDeclarationHaveABody()) continue;
        if (!U.inUserFile(FD->getLocation())) continue;
        J.object([&] {
          J.attribute("name", FD->getNameAsString());
          J.attribute("type", U.typeIndex(FD->getType()));
        });
      }
    });

    // ---- globals
    J.attributeArray("globals", [&] {
      for (Decl *D : TU->decls()) {
        auto *VD = dyn_cast<VarDecl>(D);
        if (!VD) continue;
        if (!U.inUserFile(VD->getLocation())) continue;
        emitGlobal(U, J, VD, "");
      }
      // static locals
      for (Decl *D : TU->decls()) {
        auto *FD = dyn_cast<FunctionDecl>(D);
        if (!FD || !FD->doesThisDeclarationHaveABody()) continue;
        if (!U.inUserFile(FD->getLocation())) continue;
        struct V : RecursiveASTVisitor<V> {
          std::vector<VarDecl *> out;
          bool VisitVarDecl(VarDecl *v) { if (v->isStaticLocal()) out.push_back(v); return true; }
        } v;
        v.TraverseDecl(FD);
        for (VarDecl *sv : v.out) emitGlobal(U, J, sv, FD->getNameAsString());
      }
    });

    // ---- records & enums
    J.attributeArray("records", [&] {
      struct RV : RecursiveASTVisitor<RV> {
        std::vector<RecordDecl *> out;
        bool VisitRecordDecl(RecordDecl *r) { out.push_back(r); return true; }
      } rv;
      rv.TraverseDecl(TU);
      for (RecordDecl *R : rv.out) {
        if (!R->isCompleteDefinition() || R->isInvalidDecl()) continue;
        if (!U.inUserFile(R->getLocation())) continue;
        if (R->getNameAsString().empty()) continue; // reached through parents
        if (R->isDependentType()) continue;
        J.object([&] {
          J.attribute("name", R->getNameAsString());
          J.attribute("union", R->isUnion());
          J.attribute("file", U.fileOf(R->getLocation()));
          J.attribute("line", (int64_t)U.lineOf(R->getLocation()));
          const ASTRecordLayout &L = Ctx.getASTRecordLayout(R);
          J.attribute("size", (int64_t)L.getSize().getQuantity());
          J.attributeArray("fields", [&] { emitFields(U, J, R, 0, 0); });
        });
      }
    });
    J.attributeArray("enums", [&] {
      struct EV : RecursiveASTVisitor<EV> {
        std::vector<EnumDecl *> out;
        bool VisitEnumDecl(EnumDecl *e) { out.push_back(e); return true; }
      } ev;
      ev.TraverseDecl(TU);
      for (EnumDecl *E : ev.out) {
        if (!E->isCompleteDefinition()) continue;
        if (!U.inUserFile(E->getLocation())) continue;
        J.object([&] {
          J.attribute("name", E->getNameAsString());
          J.attributeArray("values", [&] {
            for (EnumConstantDecl *C : E->enumerators()) {
              J.array([&] {
                J.value(C->getNameAsString());
                J.rawValue(apToStr(C->getInitVal()));
              });
            }
          });
        });
      }
    });
    J.attributeArray("typedefs", [&] {
      for (Decl *D : TU->decls()) {
        auto *TD = dyn_cast<TypedefNameDecl>(D);
        if (!TD || !U.inUserFile(TD->getLocation())) continue;
        J.array([&] {
          J.value(TD->getNameAsString());
          J.value(TD->getUnderlyingType().getCanonicalType().getAsString());
        });
      }
    });

    J.attributeArray("types", [&] { for (auto &s : U.Types) J.value(s); });
    J.attributeArray("macros", [&] {
      for (auto &v : U.Macros)
        J.array([&] { for (auto &s : v) J.value(s); });
    });
    J.objectEnd();
    OS << "\n";
  }

  void emitFields(Unit &U, llvm::json::OStream &J, const RecordDecl *R,
                  uint64_t baseBits, int depth) {
    const ASTRecordLayout &L = U.Ctx.getASTRecordLayout(R);
    unsigned i = 0;
    for (const FieldDecl *F : R->fields()) {
      uint64_t off = baseBits + L.getFieldOffset(i++);
      J.object([&] {
        J.attribute("name", F->getNameAsString());
        J.attribute("type", F->getType().getCanonicalType().getAsString());
        J.attribute("tdname", F->getType().getAsString());
        J.attribute("off_bits", (int64_t)off);
        if (F->isBitField())
          J.attribute("bits", (int64_t)F->getBitWidthValue(U.Ctx));
        QualType FT = F->getType();
        if (!FT->isIncompleteType() && !FT->isDependentType())
          J.attribute("size", (int64_t)U.Ctx.getTypeSizeInChars(FT).getQuantity());
        else
          J.attribute("size", -1);
        if (const auto *AT = U.Ctx.getAsArrayType(FT)) {
          J.attribute("elem", AT->getElementType().getCanonicalType().getAsString());
          if (const auto *CAT = dyn_cast<ConstantArrayType>(AT))
            J.attribute("count", (int64_t)CAT->getSize().getZExtValue());
          else
            J.attribute("count", -1);
        }
        if (const RecordType *RT = FT->getAs<RecordType>()) {
          const RecordDecl *RD = RT->getDecl()->getDefinition();
          if (RD && depth < 4 && (RD->getNameAsString().empty() || depth < 2)) {
            J.attribute("union", RD->isUnion());
            J.attributeArray("fields", [&] { emitFields(U, J, RD, off, depth + 1); });
          }
        }
      });
    }
  }

  void emitGlobal(Unit &U, llvm::json::OStream &J, VarDecl *VD,
                  const std::string &inFunc) {
    if (!VD->hasGlobalStorage()) return;
    J.object([&] {
      J.attribute("name", VD->getNameAsString());
      J.attribute("type", VD->getType().getCanonicalType().getAsString());
      J.attribute("const", VD->getType().isConstQualified() ||
                               (U.Ctx.getAsArrayType(VD->getType()) &&
                                U.Ctx.getBaseElementType(VD->getType()).isConstQualified()));
      J.attribute("file", U.fileOf(VD->getLocation()));
      J.attribute("line", (int64_t)U.lineOf(VD->getLocation()));
      J.attribute("def", VD->isThisDeclarationADefinition() != VarDecl::DeclarationOnly);
      J.attribute("static", VD->getStorageClass() == SC_Static);
      J.attribute("tls", VD->getTLSKind() != VarDecl::TLS_None);
      if (!inFunc.empty()) J.attribute("in_function", inFunc);
      if (VD->hasInit() && VD->isThisDeclarationADefinition() != VarDecl::DeclarationOnly) {
        FuncSerializer FS(U);
        int root = FS.add(VD->getInit());
        J.attribute("init_root", root);
        FS.emitNodes(J);
      }
    });
  }

  void emitFunction(Unit &U, llvm::json::OStream &J, FunctionDecl *FD) {
    FuncSerializer FS(U);
    J.object([&] {
      J.attribute("name", FD->getNameAsString());
      J.attribute("file", U.fileOf(FD->getLocation()));
      J.attribute("line", (int64_t)U.lineOf(FD->getLocation()));
      J.attribute("end_line", (int64_t)U.lineOf(FD->getEndLoc()));
      J.attribute("static", FD->getStorageClass() == SC_Static);
      J.attribute("inline", FD->isInlineSpecified());
      J.attribute("ret", U.typeIndex(FD->getReturnType()));
      J.attribute("type", U.typeIndex(FD->getType()));
      J.attribute("variadic", FD->isVariadic());
      J.attributeArray("params", [&] {
        for (ParmVarDecl *P : FD->parameters()) J.value(FS.varId(P));
      });
      CFG::BuildOptions BO;
      BO.setAllAlwaysAdd();
      BO.PruneTriviallyFalseEdges = true;
      std::unique_ptr<CFG> G = CFG::buildCFG(FD, FD->getBody(), &U.Ctx, BO);
      if (!G) {
        J.attribute("cfg_failed", true);
        return;
      }
      struct BlockOut {
        unsigned id;
        std::vector<int> elems;
        std::vector<int> succs;        // -1 = pruned/unreachable
        std::vector<int> succs_all;    // including "possibly unreachable" target
        std::string term;
        int cond = -1;
        int termnode = -1;
        std::string labelKind;
        std::string labelName;
        std::string caseLo, caseHi;
        unsigned line = 0;
      };
      std::vector<BlockOut> Blocks;
      for (const CFGBlock *B : *G) {
        BlockOut O;
        O.id = B->getBlockID();
        for (const CFGElement &E : *B) {
          if (auto CS = E.getAs<CFGStmt>()) {
            int id = FS.add(CS->getStmt());
            if (std::find(O.elems.begin(), O.elems.end(), id) == O.elems.end())
              O.elems.push_back(id);
          }
        }
        for (auto I = B->succ_begin(); I != B->succ_end(); ++I) {
          const CFGBlock *S = I->getReachableBlock();
          O.succs.push_back(S ? (int)S->getBlockID() : -1);
          const CFGBlock *S2 = S ? S : I->getPossiblyUnreachableBlock();
          O.succs_all.push_back(S2 ? (int)S2->getBlockID() : -1);
        }
        if (const Stmt *T = B->getTerminatorStmt()) {
          O.term = T->getStmtClassName();
          if (auto *BOp = dyn_cast<BinaryOperator>(T)) O.term = BOp->getOpcodeStr().str();
          if (isa<ConditionalOperator>(T)) O.term = "?:";
          if (auto *GS = dyn_cast<GotoStmt>(T)) O.labelName = "goto:" + GS->getLabel()->getNameAsString();
          O.line = U.lineOf(T->getBeginLoc());
          if (const Stmt *C = B->getTerminatorCondition(true)) O.cond = FS.add(C);
        }
        if (const Stmt *L = B->getLabel()) {
          if (auto *CS = dyn_cast<CaseStmt>(L)) {
            O.labelKind = "case";
            Expr::EvalResult R;
            if (CS->getLHS()->EvaluateAsInt(R, U.Ctx)) O.caseLo = apToStr(R.Val.getInt());
            if (CS->getRHS()) {
              Expr::EvalResult R2;
              if (CS->getRHS()->EvaluateAsInt(R2, U.Ctx)) O.caseHi = apToStr(R2.Val.getInt());
            }
            // name of the enumerator, if spelled as one
            const Expr *LHS = CS->getLHS()->IgnoreParenCasts();
            if (auto *CE = dyn_cast<ConstantExpr>(CS->getLHS())) LHS = CE->getSubExpr()->IgnoreParenCasts();
            if (auto *DR = dyn_cast<DeclRefExpr>(LHS)) O.labelName = DR->getDecl()->getNameAsString();
          } else if (isa<DefaultStmt>(L)) {
            O.labelKind = "default";
          } else if (auto *LS = dyn_cast<LabelStmt>(L)) {
            O.labelKind = "label";
            O.labelName = LS->getDecl()->getNameAsString();
          }
          if (!O.line) O.line = U.lineOf(L->getBeginLoc());
        }
        Blocks.push_back(std::move(O));
      }
      J.attribute("entry", (int64_t)G->getEntry().getBlockID());
      J.attribute("exit", (int64_t)G->getExit().getBlockID());
      J.attributeArray("blocks", [&] {
        for (const BlockOut &O : Blocks) {
          J.object([&] {
            J.attribute("id", (int64_t)O.id);
            J.attributeArray("e", [&] { for (int e : O.elems) J.value(e); });
            J.attributeArray("s", [&] { for (int s : O.succs) J.value(s); });
            if (O.succs != O.succs_all)
              J.attributeArray("sa", [&] { for (int s : O.succs_all) J.value(s); });
            if (!O.term.empty()) J.attribute("term", O.term);
            if (O.cond >= 0) J.attribute("cond", O.cond);
            if (!O.labelKind.empty()) J.attribute("lk", O.labelKind);
            if (!O.labelName.empty()) J.attribute("ln", O.labelName);
            if (!O.caseLo.empty()) { J.attributeBegin("clo"); J.rawValue(O.caseLo); J.attributeEnd(); }
            if (!O.caseHi.empty()) { J.attributeBegin("chi"); J.rawValue(O.caseHi); J.attributeEnd(); }
            if (O.line) J.attribute("l", (int64_t)O.line);
          });
        }
      });
      FS.emitNodes(J);
    });
  }
};

class Action : public ASTFrontendAction {
public:
  std::unique_ptr<ASTConsumer> CreateASTConsumer(CompilerInstance &CI,
                                                 StringRef) override {
    CI.getDiagnostics().setSuppressAllDiagnostics(false);
    return std::make_unique<Consumer>();
  }
};

} // namespace

int main(int argc, const char **argv) {
  auto Exp = CommonOptionsParser::create(argc, argv, Cat);
  if (!Exp) { llvm::errs() << llvm::toString(Exp.takeError()); return 2; }
  CommonOptionsParser &OP = Exp.get();
  ClangTool Tool(OP.getCompilations(), OP.getSourcePathList());
  int rc = Tool.run(newFrontendActionFactory<Action>().get());
  return rc;
}
