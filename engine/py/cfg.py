"""CFG helpers: boolean decomposition of branch conditions, edge facts and a
small path-sensitive explorer over (block, state) pairs."""

NORETURN = {"exit", "abort", "_exit", "longjmp", "__assert_fail", "siglongjmp", "_Exit"}


def implied(fn, cond, pol, out=None, depth=0):
    """Atoms (node, polarity) that hold when `cond` evaluates to `pol`.
    The node itself is always included, so rules can match on whole
    conditions as well as on leaves."""
    if out is None:
        out = []
    if cond is None or cond < 0 or depth > 40:
        return out
    cond = fn.strip(cond)
    nd = fn.nodes[cond]
    out.append((cond, pol))
    k = nd["k"]
    c = nd.get("c", ())
    if k == "un" and nd["o"] == "!":
        implied(fn, c[0], not pol, out, depth + 1)
    elif k == "bin":
        o = nd["o"]
        if o == "&&" and pol:
            implied(fn, c[0], True, out, depth + 1)
            implied(fn, c[1], True, out, depth + 1)
        elif o == "||" and not pol:
            implied(fn, c[0], False, out, depth + 1)
            implied(fn, c[1], False, out, depth + 1)
        elif o in ("!=", "=="):
            for a, b in ((0, 1), (1, 0)):
                if fn.const_val(c[b]) == 0:
                    sub = fn.strip(c[a])
                    # (x != 0) == pol  ->  x is pol ;  (x == 0) == pol -> x is !pol
                    implied(fn, sub, pol if o == "!=" else (not pol), out, depth + 1)
                    break
    return out


BRANCH_TERMS = {"IfStmt", "WhileStmt", "ForStmt", "DoStmt", "&&", "||", "?:"}


def edge_atoms(fn, block, succ_index):
    """atoms known to hold when leaving `block` through successor #succ_index"""
    b = fn.blocks[block]
    if b.term in BRANCH_TERMS and b.cond is not None and len(b.succs) == 2:
        return implied(fn, b.cond, succ_index == 0)
    return []


def switch_case(fn, block, succ_index):
    """for a SwitchStmt terminator: ('case', lo, hi) / ('default', [(lo,hi)...])
    describing the values of the condition on that edge, else None"""
    b = fn.blocks[block]
    if b.term != "SwitchStmt":
        return None
    s = b.succs[succ_index]
    if s is None or s < 0:
        return None
    sb = fn.blocks[s]
    if sb.lk == "case" and succ_index < len(b.succs) - 1 or (sb.lk == "case" and sb.clo is not None and _is_case_of(fn, b, sb)):
        lo = sb.clo
        hi = sb.chi if sb.chi is not None else lo
        return ("case", lo, hi)
    others = []
    for i, t in enumerate(b.succs):
        if i == succ_index or t is None or t < 0:
            continue
        tb = fn.blocks[t]
        if tb.lk == "case" and tb.clo is not None:
            others.append((tb.clo, tb.chi if tb.chi is not None else tb.clo))
    return ("default", others)


def _is_case_of(fn, b, sb):
    return True


def returns_normally(fn, block):
    """block has an edge to the exit block that is a real return / fall off
    the end (not a call to a noreturn function)"""
    b = fn.blocks[block]
    if fn.exit not in b.succs:
        return False
    for e in reversed(b.elems):
        nd = fn.nodes[e]
        if nd["k"] == "ret":
            return True
        if nd["k"] == "call":
            return nd.get("o") not in NORETURN
        break
    return True


def return_node(fn, block):
    for e in reversed(fn.blocks[block].elems):
        if fn.nodes[e]["k"] == "ret":
            return e
    return None


class PathExplorer:
    """Worklist exploration of (block, state) pairs.  `state` must be hashable.

    transfer(block_id, elem_node, state) -> iterable of states (usually one)
    branch(block_id, succ_index, succ_block, state) -> state or None (edge infeasible)
    at_exit(block_id, state)  is called for every state that returns normally.
    Each (block,state) keeps one predecessor for path reconstruction."""

    def __init__(self, fn, transfer, branch=None, at_exit=None, limit=200000):
        self.fn = fn
        self.transfer = transfer
        self.branch = branch
        self.at_exit = at_exit
        self.limit = limit
        self.pred = {}
        self.truncated = False

    def run(self, init_state):
        fn = self.fn
        start = (fn.entry, init_state)
        self.pred[start] = None
        work = [start]
        n = 0
        while work:
            key = work.pop()
            n += 1
            if n > self.limit:
                self.truncated = True
                break
            bid, st = key
            b = fn.blocks[bid]
            states = [st]
            for e in b.elems:
                nxt = []
                for s in states:
                    r = self.transfer(bid, e, s)
                    if r is None:
                        nxt.append(s)
                    else:
                        nxt.extend(r)
                # keep order, drop duplicates
                seen = set()
                states = [x for x in nxt if not (x in seen or seen.add(x))]
            for s in states:
                for i, succ in enumerate(b.succs):
                    if succ is None or succ < 0:
                        continue
                    if succ == fn.exit:
                        if self.at_exit and returns_normally(fn, bid):
                            self.at_exit(bid, s, key)
                        continue
                    s2 = s
                    if self.branch:
                        s2 = self.branch(bid, i, succ, s)
                        if s2 is None:
                            continue
                    k2 = (succ, s2)
                    if k2 not in self.pred:
                        self.pred[k2] = key
                        work.append(k2)
        return n

    def path_to(self, key, maxlen=40):
        out = []
        while key is not None and len(out) < 400:
            out.append(key[0])
            key = self.pred.get(key)
        out.reverse()
        if len(out) > maxlen:
            out = out[:maxlen // 2] + ["..."] + out[-maxlen // 2:]
        return out


def assigned_vars(fn):
    """variable ids that are assigned (after their declaration), incremented
    or have their address taken anywhere in the function"""
    out = set()
    for i, nd in enumerate(fn.nodes):
        k = nd["k"]
        if k == "bin" and (nd["o"] == "=" or (nd["o"].endswith("=") and nd["o"] not in ("==", "!=", "<=", ">="))):
            lhs = fn.strip(nd["c"][0])
            ln = fn.nodes[lhs]
            if ln["k"] == "ref" and "d" in ln:
                out.add(ln["d"])
        elif k == "un" and nd["o"] in ("&", "pre++", "pre--", "post++", "post--"):
            x = fn.strip(nd["c"][0])
            xn = fn.nodes[x]
            if xn["k"] == "ref" and "d" in xn:
                out.add(xn["d"])
    return out


def is_assign(nd):
    return nd["k"] == "bin" and nd["o"] == "="


def is_compound_assign(nd):
    return nd["k"] == "bin" and nd["o"].endswith("=") and nd["o"] not in ("==", "!=", "<=", ">=", "=")
