"""CFG helpers: boolean decomposition of branch conditions, edge facts and a
small path-sensitive explorer over (block, state) pairs."""

NORETURN = {"exit", "abort", "_exit", "longjmp", "__assert_fail", "siglongjmp", "_Exit"}


def implied(fn, cond, pol, out=None, depth=0):
    """Atoms (node, polarity) that hold when `cond` evaluates to `pol`.
    The node itself is always included, so rules can match on whole
    conditions as well as on leaves."""
    if out is None:
        out = []
    if cond is None or cond < 0 or depth > 40:
        return out
    cond = fn.strip(cond)
    nd = fn.nodes[cond]
    out.append((cond, pol))
    k = nd["k"]
    c = nd.get("c", ())
    if k == "un" and nd["o"] == "!":
        implied(fn, c[0], not pol, out, depth + 1)
    elif k == "bin":
        o = nd["o"]
        if o == "&&" and pol:
            implied(fn, c[0], True, out, depth + 1)
            implied(fn, c[1], True, out, depth + 1)
        elif o == "||" and not pol:
            implied(fn, c[0], False, out, depth + 1)
            implied(fn, c[1], False, out, depth + 1)
        elif o in ("!=", "=="):
            for a, b in ((0, 1), (1, 0)):
                if fn.const_val(c[b]) == 0:
                    sub = fn.strip(c[a])
                    # (x != 0) == pol  ->  x is pol ;  (x == 0) == pol -> x is !pol
                    implied(fn, sub, pol if o == "!=" else (not pol), out, depth + 1)
                    break
    return out


BRANCH_TERMS = {"IfStmt", "WhileStmt", "ForStmt", "DoStmt", "&&", "||", "?:"}


def edge_atoms(fn, block, succ_index):
    """atoms known to hold when leaving `block` through successor #succ_index"""
    b = fn.blocks[block]
    if b.term in BRANCH_TERMS and b.cond is not None and len(b.succs) == 2:
        return implied(fn, b.cond, succ_index == 0)
    return []


def switch_case(fn, block, succ_index):
    """for a SwitchStmt terminator: ('case', lo, hi) / ('default', [(lo,hi)...])
    describing the values of the condition on that edge, else None"""
    b = fn.blocks[block]
    if b.term != "SwitchStmt":
        return None
    s = b.succs[succ_index]
    if s is None or s < 0:
        return None
    sb = fn.blocks[s]
    if sb.lk == "case" and succ_index < len(b.succs) - 1 or (sb.lk == "case" and sb.clo is not None and _is_case_of(fn, b, sb)):
        lo = sb.clo
        hi = sb.chi if sb.chi is not None else lo
        return ("case", lo, hi)
    others = []
    for i, t in enumerate(b.succs):
        if i == succ_index or t is None or t < 0:
            continue
        tb = fn.blocks[t]
        if tb.lk == "case" and tb.clo is not None:
            others.append((tb.clo, tb.chi if tb.chi is not None else tb.clo))
    return ("default", others)


def _is_case_of(fn, b, sb):
    return True


def returns_normally(fn, block):
    """block has an edge to the exit block that is a real return / fall off
    the end (not a call to a noreturn function)"""
    b = fn.blocks[block]
    if fn.exit not in b.succs:
        return False
    for e in reversed(b.elems):
        nd = fn.nodes[e]
        if nd["k"] == "ret":
            return True
        if nd["k"] == "call":
            return nd.get("o") not in NORETURN
        break
    return True


def return_node(fn, block):
    for e in reversed(fn.blocks[block].elems):
        if fn.nodes[e]["k"] == "ret":
            return e
    return None


class PathExplorer:
    """Worklist exploration of (block, state) pairs.  `state` must be hashable.

    transfer(block_id, elem_node, state) -> iterable of states (usually one)
    branch(block_id, succ_index, succ_block, state) -> state or None (edge infeasible)
    at_exit(block_id, state)  is called for every state that returns normally.
    Each (block,state) keeps one predecessor for path reconstruction."""

    def __init__(self, fn, transfer, branch=None, at_exit=None, limit=200000):
        self.fn = fn
        self.transfer = transfer
        self.branch = branch
        self.at_exit = at_exit
        self.limit = limit
        self.pred = {}
        self.truncated = False

    def run(self, init_state):
        fn = self.fn
        start = (fn.entry, init_state)
        self.pred[start] = None
        work = [start]
        n = 0
        while work:
            key = work.pop()
            n += 1
            if n > self.limit:
                self.truncated = True
                break
            bid, st = key
            b = fn.blocks[bid]
            states = [st]
            for e in b.elems:
                nxt = []
                for s in states:
                    r = self.transfer(bid, e, s)
                    if r is None:
                        nxt.append(s)
                    else:
                        nxt.extend(r)
                # keep order, drop duplicates
                seen = set()
                states = [x for x in nxt if not (x in seen or seen.add(x))]
            for s in states:
                for i, succ in enumerate(b.succs):
                    if succ is None or succ < 0:
                        continue
                    if succ == fn.exit:
                        if self.at_exit and returns_normally(fn, bid):
                            self.at_exit(bid, s, key)
                        continue
                    s2 = s
                    if self.branch:
                        s2 = self.branch(bid, i, succ, s)
                        if s2 is None:
                            continue
                    k2 = (succ, s2)
                    if k2 not in self.pred:
                        self.pred[k2] = key
                        work.append(k2)
        return n

    def path_to(self, key, maxlen=40):
        out = []
        while key is not None and len(out) < 400:
            out.append(key[0])
            key = self.pred.get(key)
        out.reverse()
        if len(out) > maxlen:
            out = out[:maxlen // 2] + ["..."] + out[-maxlen // 2:]
        return out


def assigned_vars(fn):
    """variable ids that are assigned (after their declaration), incremented
    or have their address taken anywhere in the function"""
    out = set()
    for i, nd in enumerate(fn.nodes):
        k = nd["k"]
        if k == "bin" and (nd["o"] == "=" or (nd["o"].endswith("=") and nd["o"] not in ("==", "!=", "<=", ">="))):
            lhs = fn.strip(nd["c"][0])
            ln = fn.nodes[lhs]
            if ln["k"] == "ref" and "d" in ln:
                out.add(ln["d"])
        elif k == "un" and nd["o"] in ("&", "pre++", "pre--", "post++", "post--"):
            x = fn.strip(nd["c"][0])
            xn = fn.nodes[x]
            if xn["k"] == "ref" and "d" in xn:
                out.add(xn["d"])
    return out


def is_assign(nd):
    return nd["k"] == "bin" and nd["o"] == "="


def is_compound_assign(nd):
    return nd["k"] == "bin" and nd["o"].endswith("=") and nd["o"] not in ("==", "!=", "<=", ">=", "=")


def dominators(fn):
    """block id -> set of dominating block ids (iterative; CFGs are small)"""
    order = fn.rpo()
    allb = set(order)
    dom = {b: set(allb) for b in order}
    dom[fn.entry] = {fn.entry}
    changed = True
    while changed:
        changed = False
        for b in order:
            if b == fn.entry:
                continue
            preds = [p for p in fn.blocks[b].preds if p in allb]
            if not preds:
                continue
            new = set.intersection(*(dom[p] for p in preds)) | {b}
            if new != dom[b]:
                dom[b] = new
                changed = True
    return dom


def elem_positions(fn):
    """node id -> (block id, index) for CFG elements"""
    pos = {}
    for b in fn.blocks.values():
        for i, e in enumerate(b.elems):
            pos.setdefault(e, (b.id, i))
    return pos


def enclosing_elem(fn, n, pos):
    """the CFG position at which node n is evaluated"""
    while n is not None and n not in pos:
        n = fn.parent(n)
    return pos.get(n) if n is not None else None


def dominates(dom, pos_a, pos_b):
    """position a = (block, idx) is executed before position b on every path"""
    if pos_a is None or pos_b is None:
        return False
    if pos_a[0] == pos_b[0]:
        return pos_a[1] < pos_b[1]
    return pos_a[0] in dom.get(pos_b[0], ())


def local_defs(fn, vid):
    """all definitions of local `vid`: list of (node, rhs or None)"""
    out = []
    for i, nd in enumerate(fn.nodes):
        if nd["k"] == "decl" and nd.get("d") == vid:
            if nd.get("c"):
                out.append((i, nd["c"][0]))
        elif nd["k"] == "bin" and nd["o"].endswith("=") and nd["o"] not in ("==", "!=", "<=", ">="):
            lhs = fn.strip(nd["c"][0])
            ln = fn.nodes[lhs]
            if ln["k"] == "ref" and ln.get("d") == vid:
                out.append((i, nd["c"][1] if nd["o"] == "=" else None))
        elif nd["k"] == "un" and nd["o"] in ("pre++", "pre--", "post++", "post--", "&"):
            x = fn.strip(nd["c"][0])
            if fn.nodes[x]["k"] == "ref" and fn.nodes[x].get("d") == vid:
                out.append((i, None))
    return out


def linform(fn, n, depth=0, subst=True):
    """linear form of an integer expression: (const, {term text: coeff}) or None.
    Locals with a single definition are substituted by their defining expression."""
    if n is None or n < 0 or depth > 12:
        return None
    n = fn.strip(n)
    nd = fn.nodes[n]
    k = nd["k"]
    if "v" in nd and k in ("int", "const", "ref"):
        return (nd["v"], {})
    if k == "bin":
        o = nd["o"]
        a = linform(fn, nd["c"][0], depth + 1, subst)
        b = linform(fn, nd["c"][1], depth + 1, subst)
        if a is None or b is None:
            return (0, {fn.txt(n): 1})
        if o == "-" and (fn.type(n) or "").startswith("unsigned") and b[0] > 0 and not b[1] and a[1]:
            # `len - k` computed in an unsigned type wraps around when len < k: not a linear fact
            return (0, {fn.txt(n): 1})
        if o in ("+", "-"):
            s = 1 if o == "+" else -1
            terms = dict(a[1])
            for t, c in b[1].items():
                terms[t] = terms.get(t, 0) + s * c
            return (a[0] + s * b[0], {t: c for t, c in terms.items() if c})
        if o == "*":
            if not a[1]:
                return (a[0] * b[0], {t: c * a[0] for t, c in b[1].items() if c * a[0]})
            if not b[1]:
                return (a[0] * b[0], {t: c * b[0] for t, c in a[1].items() if c * b[0]})
        return (0, {fn.txt(n): 1})
    if k == "ref" and "d" in nd and subst:
        defs = local_defs(fn, nd["d"])
        if len(defs) == 1 and defs[0][1] is not None and nd["d"] not in fn.params:
            r = linform(fn, defs[0][1], depth + 1, subst)
            if r is not None:
                return r
    return (0, {fn.txt(n): 1})


def lin_sub(a, b, scale=1):
    terms = dict(a[1])
    for t, c in b[1].items():
        terms[t] = terms.get(t, 0) - scale * c
    return (a[0] - scale * b[0], {t: c for t, c in terms.items() if c})


def block_reach(fn, src):
    """blocks reachable from block src (excluding src unless on a cycle)"""
    seen = set()
    st = [s for s in fn.blocks[src].succs if s is not None and s >= 0]
    while st:
        b = st.pop()
        if b in seen:
            continue
        seen.add(b)
        st.extend(s for s in fn.blocks[b].succs if s is not None and s >= 0)
    return seen


def redefined_between(fn, vid, pos_a, pos_b, pos):
    """may local `vid` be (re)defined on a path from CFG position a to position b?"""
    for (d, _rhs) in local_defs(fn, vid):
        pd = enclosing_elem(fn, d, pos)
        if pd is None:
            continue
        if pos_a[0] == pos_b[0] and pos_a[1] <= pos_b[1]:
            if pd[0] == pos_a[0] and pos_a[1] < pd[1] < pos_b[1]:
                return True
            continue
        if pd[0] == pos_a[0] and pd[1] > pos_a[1]:
            return True
        if pd[0] == pos_b[0] and pd[1] < pos_b[1]:
            return True
        if pd[0] not in (pos_a[0], pos_b[0]) and pd[0] in block_reach(fn, pos_a[0]) and pos_b[0] in block_reach(fn, pd[0]):
            return True
    return False


def reach_without(fn, src, dst, kills):
    """is there a path that starts right after CFG position src, arrives at position dst, and
    executes none of the positions in `kills` on the way?  (positions are (block, index))"""
    kb = {}
    for (b, i) in kills:
        kb.setdefault(b, []).append(i)
    sb, si = src
    db, di = dst

    def first_kill_after(b, i):
        ks = [k for k in kb.get(b, ()) if k > i]
        return min(ks) if ks else None
    # within the source block
    k = first_kill_after(sb, si)
    if sb == db and si < di and (k is None or k >= di):
        return True
    if k is not None:
        return False          # a kill executes before the block is left
    seen = set()
    st = [s for s in fn.blocks[sb].succs if s is not None and s >= 0]
    while st:
        b = st.pop()
        if b in seen:
            continue
        seen.add(b)
        k = first_kill_after(b, -1)
        if b == db and (k is None or k >= di):
            return True
        if k is not None:
            continue
        for s in fn.blocks[b].succs:
            if s is not None and s >= 0:
                st.append(s)
    return False
