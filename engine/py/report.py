"""Findings, known-findings / exemption matching, evidence and exit codes."""
import json
import os
import sys
import time

VERIF = os.path.dirname(os.path.dirname(os.path.dirname(os.path.abspath(__file__))))


class Finding:
    def __init__(self, prop, rule, function, discriminator, where, message,
                 unit="", config="default", path=None, extra=None, advisory=False):
        self.prop = prop
        self.rule = rule
        self.function = function
        self.disc = discriminator
        self.where = where
        self.message = message
        self.unit = unit
        self.config = config
        self.path = path
        self.extra = extra or {}
        self.advisory = advisory

    def key(self):
        return (self.rule, self.function, self.disc)

    def to_json(self):
        d = {"property": self.prop, "rule": self.rule, "unit": self.unit,
             "function": self.function, "discriminator": self.disc,
             "where": self.where, "message": self.message, "config": self.config}
        if self.path:
            d["path"] = self.path
        if self.extra:
            d["instance"] = self.extra
        return d

    def __str__(self):
        return "%s [%s] %s: %s (%s)" % (self.where, self.rule, self.function, self.message, self.disc)


class RuleStat:
    """what one rule analysed: instances, floor, samples"""

    def __init__(self, rule, what):
        self.rule = rule
        self.what = what
        self.sites = 0          # sites inspected (evaluations)
        self.obligations = 0    # rule instances with something to prove
        self.discharged = 0
        self.floor = 0
        self.samples = []
        self.nontrivial = set()

    def sample(self, s, limit=4):
        if len(self.samples) < limit:
            self.samples.append(s)


class Result:
    def __init__(self, prop, tier):
        self.prop = prop
        self.tier = tier
        self.findings = []
        self.advisories = []
        self.stats = []
        self.broken = []        # analysis-broken messages (exit 2)
        self.notes = []
        self.configs = ["default"]
        self.units = 0
        self.functions = 0
        self.explanation = ""
        self.assumptions = []
        self.witness = []       # (name, fired: bool)
        self.mutations = []     # (name, detected: bool)

    def stat(self, rule, what, floor=0):
        s = RuleStat(rule, what)
        s.floor = floor
        self.stats.append(s)
        return s

    def add(self, f):
        if f.advisory:
            self.advisories.append(f)
        else:
            self.findings.append(f)


def load_json(name, default):
    p = os.path.join(VERIF, name)
    if not os.path.exists(p):
        return default
    with open(p) as f:
        return json.load(f)


def match(entry, f, wild=False):
    """identity = (property, rule, function, discriminator); exemptions (never known
    findings) may use a trailing * on the rule and "*" as discriminator, but always
    name exactly one function"""
    if entry.get("property", f.prop) != f.prop or entry["function"] != f.function:
        return False
    r = entry["rule"]
    if wild and r.endswith("*"):
        if not f.rule.startswith(r[:-1]):
            return False
    elif r != f.rule:
        return False
    if wild and ("*" in entry["discriminator"]):
        import fnmatch
        return fnmatch.fnmatchcase(f.disc, entry["discriminator"])
    return entry["discriminator"] == f.disc


def finish(res, t0):
    """apply exemptions / known findings, print, write evidence, return exit code"""
    prop = res.prop
    exemptions = load_json("rules/exemptions.json", {"exemptions": []})["exemptions"]
    known = load_json("known_findings.json", {"findings": [], "fixed": []})
    exempted = []
    kept = []
    seen = set()
    for f in res.findings:
        if f.key() in seen:
            continue
        seen.add(f.key())
        ex = [e for e in exemptions if match(e, f, wild=True)]
        if ex:
            exempted.append((f, ex[0]))
        else:
            kept.append(f)
    known_hits = []
    violations = []
    for f in kept:
        kn = [k for k in known["findings"] if match(k, f)]
        if kn:
            known_hits.append((f, kn[0]))
        else:
            violations.append(f)

    # instance floors
    for s in res.stats:
        if s.obligations < s.floor:
            res.broken.append("rule %s: %d instances, below the floor %d confirmed by hand (%s)"
                              % (s.rule, s.obligations, s.floor, s.what))
    for (name, fired) in res.witness:
        if not fired:
            res.broken.append("positive witness %s was not reported by its rule" % name)
    for (name, detected) in res.mutations:
        if not detected:
            res.broken.append("mutation witness %s was not detected by its rule" % name)

    out_dir = os.path.join(VERIF, "out", "violations")
    os.makedirs(out_dir, exist_ok=True)
    for s in res.stats:
        print("  rule %-28s %5d sites %5d obligations %5d discharged (floor %d) - %s"
              % (s.rule, s.sites, s.obligations, s.discharged, s.floor, s.what))
    for (f, e) in exempted:
        print("  exempt: %s -- %s" % (f, e["reason"]))
    for f in res.advisories[:50]:
        print("  advisory: %s" % f)
    for (f, k) in known_hits:
        print("KNOWN-FINDING: property=%s %s" % (prop, k.get("what", str(f))))
        print("    at %s" % f)
    for i, f in enumerate(violations):
        rp = os.path.join(out_dir, "%s-%d.json" % (prop, i))
        with open(rp, "w") as fh:
            json.dump(f.to_json(), fh, indent=1)
        print("VIOLATION property=%s replay=%s" % (prop, rp))
        print("    %s" % f)
        if f.path:
            print("    path: %s" % " -> ".join(str(x) for x in f.path))
    for m in res.broken:
        print("ANALYSIS-BROKEN property=%s %s" % (prop, m))

    obligations = sum(s.obligations for s in res.stats)
    discharged = sum(s.discharged for s in res.stats)
    sites = sum(s.sites for s in res.stats)
    nontrivial = sum(len(s.nontrivial) if s.nontrivial else s.obligations for s in res.stats)
    samples = []
    for s in res.stats:
        for x in s.samples:
            samples.append({"rule": s.rule, "obligation": x})
    ev = {
        "property_id": prop,
        "tier": res.tier,
        "seed": int(os.environ.get("VERIF_SEED", "0") or 0),
        "level": "other",
        "coverage": {
            "explanation": res.explanation,
            "obligations": obligations,
            "discharged": discharged,
            "evaluations": max(sites, 1),
            "distinct_nontrivial": nontrivial,
            "rule": "obligation = one rule instance (function/path/call site/table row) that the named "
                    "clause has to hold for; non-trivial = the instance actually contains the construct the "
                    "rule speaks about (counted per rule, distinct by function+discriminator)",
            "samples": samples[:24] or [{"note": "no obligations"}],
            "exhaustive": not res.broken,
            "rules": [{"rule": s.rule, "what": s.what, "sites": s.sites, "obligations": s.obligations,
                       "discharged": s.discharged, "floor": s.floor} for s in res.stats],
            "units_parsed": res.units,
            "functions_analysed": res.functions,
            "configs": res.configs,
            "known_findings_matched": [k.get("what", "") for (_f, k) in known_hits],
            "exemptions_used": [{"finding": str(f), "reason": e["reason"]} for (f, e) in exempted],
            "advisory": [str(f) for f in res.advisories[:200]],
            "positive_witnesses": [{"name": n, "reported": ok} for (n, ok) in res.witness],
            "mutations_tried": len(res.mutations),
            "mutations_detected": sum(1 for (_n, ok) in res.mutations if ok),
            "mutation_witnesses": [{"name": n, "detected": ok} for (n, ok) in res.mutations],
            "notes": res.notes,
        },
        "assumptions": res.assumptions,
        "wall_s": round(time.time() - t0, 2),
        "violations": len(violations),
    }
    os.makedirs(os.path.join(VERIF, "evidence"), exist_ok=True)
    with open(os.path.join(VERIF, "evidence", "%s.json" % prop), "w") as fh:
        json.dump(ev, fh, indent=1)
    if res.broken:
        code = 2
    elif violations:
        code = 1
    else:
        code = 0
    print("%s %s: %d obligations, %d discharged, %d violations, %d known findings, %d exempt, "
          "%d advisory, %.1fs -> exit %d"
          % (prop, res.tier, obligations, discharged, len(violations), len(known_hits),
             len(exempted), len(res.advisories), time.time() - t0, code))
    return code
