"""Table / layout extraction (rule family F3): the type-spec table, the opcode
table, struct sexp_struct's record layout - all from constant-evaluated
initializers and ASTRecordLayout, never from text."""
from extract import AnalysisBroken

SEXP_T = "struct sexp_struct *"


def find_global(prog, name, unit=None):
    for u in prog.units:
        if unit and u.name != unit:
            continue
        for g in u.globals:
            if g.name == name and g.init_root is not None:
                return g
    raise AnalysisBroken("anchor vanished: global table %s has no parsed initializer" % name)


def record(prog, name):
    for u in prog.units:
        r = u.records.get(name)
        if r:
            return r
    raise AnalysisBroken("anchor vanished: record %s" % name)


def enum_values(prog, const_prefix=None, enum_name=None):
    for u in prog.units:
        for en, vals in u.enums.items():
            if enum_name and en == enum_name:
                return vals
            if const_prefix and vals and any(n == const_prefix for n, _v in vals):
                return vals
    raise AnalysisBroken("anchor vanished: enum %s" % (enum_name or const_prefix))


class Layout:
    """layout of struct sexp_struct: union members of .value with flattened fields"""

    def __init__(self, prog):
        self.rec = record(prog, "sexp_struct")
        self.value = None
        for f in self.rec["fields"]:
            if f["name"] == "value":
                self.value = f
        if self.value is None or "fields" not in self.value:
            raise AnalysisBroken("struct sexp_struct has no union member `value`")
        self.value_off = self.value["off_bits"] // 8
        self.members = {}
        for m in self.value["fields"]:
            self.members[m["name"]] = m
        self.word = 8

    def member_fields(self, member):
        """flattened scalar fields of a union member: [(path, type, byte offset, size)]"""
        m = self.members.get(member)
        if m is None:
            return None
        out = []

        def walk(f, prefix):
            if "fields" in f and not f.get("elem"):
                for g in f["fields"]:
                    walk(g, prefix + [g["name"]])
            else:
                out.append((".".join(prefix), f["type"], f["off_bits"] // 8, f["size"], f))
        if "fields" in m:
            for g in m["fields"]:
                walk(g, [g["name"]])
        else:
            out.append(("", m["type"], m["off_bits"] // 8, m["size"], m))
        return out

    def member_size(self, member):
        m = self.members.get(member)
        return m["size"] if m else None

    def sexp_sizeof(self, member):
        return self.value_off + self.members[member]["size"]

    def field_at(self, member, off):
        for (path, ty, o, sz, f) in self.member_fields(member) or []:
            if o == off:
                return (path, ty, sz, f)
        return None


TYPE_FIELDS = None


def type_rows(prog):
    """rows of _sexp_type_specs as dicts: struct field -> int (or text), plus
    '_member' (union member the row describes), '_name', '_line'"""
    g = find_global(prog, "_sexp_type_specs", "sexp.c")
    ts = record(prog, "sexp_type_struct")
    fnames = [f["name"] for f in ts["fields"]]
    root = g.nodes[g.init_root]
    rows = []
    for ri, r in enumerate(root["c"]):
        rn = g.nodes[r]
        if rn["k"] != "init":
            raise AnalysisBroken("_sexp_type_specs row %d is not an initializer list" % ri)
        row = {"_index": ri, "_line": rn.get("l", 0), "_parts": {}}
        for fname, c in zip(fnames, rn["c"]):
            n = g.strip(c)
            nd = g.nodes[n]
            if "v" in nd:
                row[fname] = nd["v"]
            elif nd["k"] == "str":
                row[fname] = nd.get("s", "")
            elif nd["k"] == "ref":
                row[fname] = nd["o"]
            else:
                row[fname] = g.txt(n)
            if nd.get("p"):
                row["_parts"][fname] = nd["p"]
            if nd["k"] == "ref" and nd.get("dk") == "e":
                row["_" + fname + "_name"] = nd["o"]
        row["_name"] = row.get("name")
        member = None
        for fname in ("size_base", "field_base"):
            for kind, path in row["_parts"].get(fname, []):
                parts = path.split(".")
                if parts[0] == "value" and len(parts) >= 2:
                    member = parts[1]
                    break
            if member:
                break
        row["_member"] = member
        rows.append(row)
    return rows, g


def opcode_rows(prog):
    g = find_global(prog, "opcodes", "opcodes.c")
    os_ = record(prog, "sexp_opcode_struct")
    root = g.nodes[g.init_root]
    fnames = [f["name"] for f in os_["fields"]]
    rows = []
    for ri, r in enumerate(root["c"]):
        rn = g.nodes[r]
        op_init = rn
        op_init_id = r
        if op_init["k"] != "init" or len(op_init.get("c", ())) != len(fnames):
            raise AnalysisBroken("opcodes[] row %d is not a full sexp_opcode_struct initializer" % ri)
        row = {"_index": ri, "_line": rn.get("l", 0), "_macros": g.macros(op_init_id)}
        for fname, c in zip(fnames, op_init["c"]):
            n = g.strip(c)
            nd = g.nodes[n]
            if "v" in nd:
                row[fname] = nd["v"]
                if nd["k"] == "ref":
                    row["_" + fname + "_name"] = nd["o"]
            elif nd["k"] == "str":
                row[fname] = nd.get("s", "")
            elif nd["k"] == "ref":
                row[fname] = nd["o"]
            else:
                row[fname] = g.txt(n)
        rows.append(row)
    return rows, g


def unbox_fixnum(v):
    """value of a word that holds a boxed fixnum, else None"""
    if isinstance(v, int) and v & 1:
        return v >> 1
    return None


SEXP_FALSE_WORD = 62
SEXP_VOID_WORD = (4 << 8) + 62
