"""Checker self-test: scripted mutation witnesses (thorough tier).

Each witness is a small realistic edit of /repo (as old/new substrings of one
file).  It is applied to a scratch copy of the tracked sources outside /repo and
/verif, the affected rule is re-run on the copy with the same engine, and the
rule must report a finding that (a) is not reported on the unchanged tree and
(b) names the mutated instance.  The scratch copy is removed immediately."""
import json
import os
import shutil
import subprocess
import tempfile

import extract
import report

VERIF = extract.VERIF


def make_scratch(edits):
    base = os.environ.get("TMPDIR", "/tmp")
    root = tempfile.mkdtemp(prefix="verif-mut-", dir=base)
    files = subprocess.run(["git", "-C", extract.REPO, "ls-files", "-z"], stdout=subprocess.PIPE,
                           check=True).stdout.decode().split("\0")
    for f in files:
        if not f:
            continue
        if not (f.endswith((".c", ".h", ".stub", ".scm", ".sld")) or f.startswith("tools/")):
            continue
        src = os.path.join(extract.REPO, f)
        if not os.path.isfile(src):
            continue
        dst = os.path.join(root, f)
        os.makedirs(os.path.dirname(dst), exist_ok=True)
        shutil.copyfile(src, dst)
    for (rel, old, new) in edits:
        p = os.path.join(root, rel)
        with open(p) as fh:
            s = fh.read()
        if s.count(old) < 1:
            shutil.rmtree(root, ignore_errors=True)
            return None, "edit does not apply any more: %s: %r" % (rel, old[:50])
        s = s.replace(old, new, 1)
        with open(p, "w") as fh:
            fh.write(s)
    return root, None


def load_mutations(prop):
    p = os.path.join(VERIF, "selftest", "mutations.json")
    with open(p) as fh:
        allm = json.load(fh)
    return [m for m in allm["mutations"] if m["property"] == prop]


def run_mutations(res, prop, runners, baseline_keys):
    """runners: rule name -> function(prog, scratch_result).  baseline_keys: set of
    finding keys reported on the unchanged tree (incl. known/exempt)."""
    for m in load_mutations(prop):
        runner = runners.get(m["rule"])
        if runner is None:
            res.notes.append("mutation %s: no runner for rule %s" % (m["name"], m["rule"]))
            continue
        root, err = make_scratch([(e["file"], e["old"], e["new"]) for e in m["edits"]])
        if root is None:
            res.notes.append("mutation %s skipped: %s" % (m["name"], err))
            continue
        try:
            prog = extract.load_program(m.get("config", "default"), only=set(m["units"]) if m.get("units") else None,
                                        root=root)
            r2 = report.Result(prop, "thorough")
            runner(prog, r2)
            new = [f for f in r2.findings + r2.advisories if f.key() not in baseline_keys]
            exp = m["expect"]
            hit = [f for f in new if f.rule.startswith(exp.get("rule", "")) and
                   (not exp.get("function") or f.function == exp["function"]) and
                   (not exp.get("disc") or exp["disc"] in f.disc)]
            res.mutations.append((m["name"], bool(hit)))
            if not hit:
                res.notes.append("mutation %s NOT detected; new findings: %s" % (m["name"], [str(f) for f in new][:3]))
        except extract.AnalysisBroken as e:
            # only witnesses that are meant to trip an anchor/floor count this as detection
            res.mutations.append((m["name"], bool(m["expect"].get("broken"))))
            res.notes.append("mutation %s makes the analysis report broken: %s" % (m["name"], str(e)[:200]))
        finally:
            shutil.rmtree(root, ignore_errors=True)
            extract._programs = {k: v for k, v in extract._programs.items() if k[2] != root}
