"""Run cfacts over the compilation database of /repo/_build on the *current*
working tree and load the result.  No fact cache survives a run."""
import atexit
import json
import os
import shlex
import shutil
import subprocess
import sys
import tempfile
import time
from concurrent.futures import ThreadPoolExecutor

from facts import Unit, Program

VERIF = os.path.dirname(os.path.dirname(os.path.dirname(os.path.abspath(__file__))))
REPO = os.environ.get("VERIF_REPO", "/repo")
BUILD = os.path.join(REPO, "_build")
CFACTS = os.path.join(VERIF, "out", "bin", "cfacts")
RESOURCE_DIR = "/usr/lib/llvm-14/lib/clang/14.0.6"

CONFIGS = {
    "default": [],
    "nosimplify": ["-DSEXP_USE_SIMPLIFY=0"],
    "custom_ll": ["-DSEXP_USE_CUSTOM_LONG_LONGS=1"],
    "nothreads": ["-DSEXP_USE_GREEN_THREADS=0"],
    "noextfcall": ["-DSEXP_USE_EXTENDED_FCALL=0"],
    "refcache": ["-DSEXP_USE_STRING_REF_CACHE=1"],
}


class AnalysisBroken(Exception):
    pass


_scratch = None


def scratch():
    global _scratch
    if _scratch is None:
        base = os.path.join(VERIF, "out", "run")
        os.makedirs(base, exist_ok=True)
        _scratch = tempfile.mkdtemp(prefix="r%d-" % os.getpid(), dir=base)
        atexit.register(lambda: shutil.rmtree(_scratch, ignore_errors=True))
    return _scratch


def ensure_tools():
    if not os.path.exists(CFACTS):
        raise AnalysisBroken("cfacts not built: run MANIFEST.setup_cmd (./setup.sh)")
    db = os.path.join(BUILD, "compile_commands.json")
    if not os.path.exists(db):
        raise AnalysisBroken("%s/compile_commands.json missing: run ./setup.sh" % BUILD)
    # the unit list and the -D flags come from the build description of the *current* tree: re-configure
    # (no compilation) when CMakeLists.txt is newer than the compilation database
    cml = os.path.join(REPO, "CMakeLists.txt")
    try:
        if os.path.exists(cml) and os.path.getmtime(cml) > os.path.getmtime(db):
            subprocess.run(["cmake", "-S", REPO, "-B", BUILD], stdout=subprocess.DEVNULL, stderr=subprocess.DEVNULL,
                           timeout=300)
            os.utime(db, None) if os.path.exists(db) else None
    except (OSError, subprocess.SubprocessError):
        pass


def db_entries():
    """de-duplicated compilation database: file -> flags (only -D/-I/-U/-std/-include)"""
    with open(os.path.join(BUILD, "compile_commands.json")) as f:
        db = json.load(f)
    out = {}
    for e in db:
        f = e["file"]
        if f in out:
            continue
        args = shlex.split(e["command"]) if "command" in e else e["arguments"]
        flags = []
        i = 1
        while i < len(args):
            a = args[i]
            if a in ("-o", "-MF", "-MT", "-MQ"):
                i += 2
                continue
            if a in ("-I", "-D", "-U", "-include", "-isystem"):
                flags += [a, args[i + 1]]
                i += 2
                continue
            if a.startswith(("-I", "-D", "-U", "-std=", "-isystem")):
                flags.append(a)
            i += 1
        out[f] = (flags, e.get("directory", BUILD))
    return out


def stub_source(gen_path, root=None):
    """/repo/_build/lib/x/y.c -> <root>/lib/x/y.stub if that exists"""
    pre = BUILD + "/"
    if not gen_path.startswith(pre):
        return None
    rel = gen_path[len(pre):]
    stub = os.path.join(root or REPO, rel[:-2] + ".stub")
    return stub if os.path.exists(stub) else None


def remap(path, root):
    """a path of the compilation database seen from source root `root`"""
    if root and root != REPO and path.startswith(REPO + "/") and not path.startswith(BUILD + "/"):
        return root + path[len(REPO):]
    return path


def remap_flags(flags, root):
    if not root or root == REPO:
        return flags
    out = []
    for f in flags:
        if f.startswith("-I") and len(f) > 2:
            out.append("-I" + remap(f[2:], root))
        else:
            out.append(remap(f, root))
    return out


def regenerate_stub(stub, out_c, root=None):
    """Generated FFI sources are rebuilt from the .stub of the working tree with
    the repository's own generator (tools/chibi-ffi), into our scratch dir."""
    os.makedirs(os.path.dirname(out_c), exist_ok=True)
    exe = os.path.join(BUILD, "chibi-scheme")
    env = dict(os.environ)
    env["LD_LIBRARY_PATH"] = BUILD
    env["CHIBI_IGNORE_SYSTEM_PATH"] = "1"
    env["CHIBI_MODULE_PATH"] = os.path.join(BUILD, "lib") + ":" + os.path.join(REPO, "lib")
    r = subprocess.run([exe, os.path.join(root or REPO, "tools", "chibi-ffi"), stub, out_c],
                       cwd=root or REPO, env=env, stdout=subprocess.PIPE, stderr=subprocess.STDOUT,
                       timeout=120)
    if r.returncode != 0 or not os.path.exists(out_c):
        return r.stdout.decode(errors="replace")
    return None


def run_cfacts(src, flags, out_json):
    cmd = [CFACTS, "--out=" + out_json, src, "--"] + flags + [
        "-w", "-O0", "-resource-dir=" + RESOURCE_DIR]
    r = subprocess.run(cmd, stdout=subprocess.PIPE, stderr=subprocess.STDOUT, timeout=300)
    if r.returncode != 0 or not os.path.exists(out_json):
        return r.stdout.decode(errors="replace")[-3000:]
    return None


_programs = {}
stats = {"units": 0, "extract_s": 0.0, "stubs_regenerated": 0}


def load_program(config="default", only=None, extra_sources=None, root=None):
    """Parse every unit of the database (or those whose basename is in `only`)
    under `config` and return a Program.  extra_sources: list of (path, flags)
    for witness files analysed with the same engine."""
    key = (config, tuple(sorted(only)) if only else None, root)
    if key in _programs and not extra_sources:
        return _programs[key]
    ensure_tools()
    t0 = time.time()
    ents = db_entries()
    sc = scratch()
    jobs = []
    gen_needed = []
    for f, (flags, _dir) in ents.items():
        base = os.path.basename(f)
        if only and base not in only:
            continue
        src = remap(f, root)
        flags = remap_flags(flags, root)
        stub = stub_source(f, root)
        if stub:
            src = os.path.join(sc, "gen%d" % (abs(hash(root)) % 100000 if root else 0), os.path.relpath(f, BUILD))
            gen_needed.append((stub, src))
            flags = flags + ["-I" + os.path.dirname(stub), "-I" + os.path.dirname(f)]
        elif not os.path.exists(src):
            raise AnalysisBroken("source in compilation database vanished: " + src)
        tag = os.path.relpath(f, REPO).replace("/", "__") + ("" if not root else ".m%d" % (abs(hash(root)) % 100000))
        jobs.append((src, flags + CONFIGS[config], os.path.join(sc, "%s.%s.json" % (tag, config))))
    for (p, fl) in (extra_sources or []):
        tag = "extra__" + os.path.basename(p)
        anyflags = next(iter(ents.values()))[0]
        jobs.append((p, anyflags + fl, os.path.join(sc, "%s.%s.json" % (tag, config))))
    with ThreadPoolExecutor(max_workers=16) as ex:
        gen_todo = [(s, o) for (s, o) in gen_needed if not os.path.exists(o)]
        errs = list(ex.map(lambda so: regenerate_stub(so[0], so[1], root), gen_todo))
        for (s, o), e in zip(gen_todo, errs):
            if e is not None:
                raise AnalysisBroken("chibi-ffi failed on %s:\n%s" % (s, e))
        stats["stubs_regenerated"] += len(gen_todo)
        errs = list(ex.map(lambda j: run_cfacts(*j), jobs))
        for j, e in zip(jobs, errs):
            if e is not None:
                raise AnalysisBroken("cfacts failed on %s:\n%s" % (j[0], e))
        units = list(ex.map(lambda j: Unit(j[2], config), jobs))
    # facts are loaded in memory; drop the json files right away
    for j in jobs:
        try:
            os.remove(j[2])
        except OSError:
            pass
    # generated units report their scratch path; map back to a stable name
    import re as _re
    for u in units:
        m = _re.match(_re.escape(sc) + r"/gen\d+/(.*)$", u.main_file)
        if m:
            rel = m.group(1)
            u.gen_of = rel[:-2] + ".stub"
            u.display = "_build/" + rel
        else:
            u.gen_of = None
            u.display = os.path.relpath(u.main_file, root or REPO)
        for fn in u.func_list:
            m = _re.match(_re.escape(sc) + r"/gen\d+/(.*)$", fn.file)
            if m:
                fn.file = os.path.join(BUILD, m.group(1))
            elif root and fn.file.startswith(root + "/"):
                fn.file = REPO + fn.file[len(root):]
    stats["units"] += len(units)
    stats["extract_s"] += time.time() - t0
    prog = Program(units)
    prog.config = config
    prog.root = root or REPO
    if not extra_sources:
        _programs[key] = prog
    return prog


if __name__ == "__main__":
    p = load_program(sys.argv[1] if len(sys.argv) > 1 else "default")
    print(len(p.units), "units", sum(len(u.functions) for u in p.units), "functions",
          "%.1fs" % stats["extract_s"])
