"""Whole-program call graph over cfacts units (rule family F4).

Link units: the core library (gc, sexp, bignum, gc_heap, opcodes, vm, eval,
simplify), and every other unit on its own (each is a separate shared object
or executable that links against the core).  A callee name resolves to a
definition in the caller's unit first, then to the core.

Indirect calls are resolved by *function-pointer flow*: every place a function's
address is taken is classified (table initializer field, store to a struct
field, argument of a call) and propagated through parameters to a fixpoint, so
that a call through `x->...field` reaches the functions that were ever stored in
a field of that name.  Anything unresolved falls back to "any address-taken
function" (sound, reported as `unresolved`).
"""
from collections import defaultdict

CORE_UNITS = {"gc.c", "sexp.c", "bignum.c", "gc_heap.c", "opcodes.c", "vm.c", "eval.c", "simplify.c"}


class CallGraph:
    def __init__(self, prog):
        self.prog = prog
        self.core = {}
        for u in prog.units:
            if u.name in CORE_UNITS:
                for fn in u.functions.values():
                    if not fn.static or fn.file.endswith(".h"):
                        self.core.setdefault(fn.name, fn)
        self.fkey = {}
        self.funcs = []
        seen = set()
        for u in prog.units:
            for fn in u.functions.values():
                k = (fn.file, fn.name, fn.line0)
                if k in seen:
                    continue
                seen.add(k)
                self.funcs.append(fn)
        self.edges = defaultdict(set)       # Func -> set(Func)
        self.ext_calls = defaultdict(set)   # Func -> set(name) (no body anywhere)
        self.indirect = defaultdict(list)   # Func -> [(node, descr, targets or None)]
        self.call_sites = defaultdict(list)  # callee Func -> [(caller Func, node)]
        self._flow()
        self._build()

    # ---- resolution
    def resolve(self, unit, name):
        fn = unit.functions.get(name)
        if fn is not None:
            return self._canon(fn)
        fn = self.core.get(name)
        if fn is not None:
            return self._canon(fn)
        return None

    def _canon(self, fn):
        # header inlines: one representative per (file,name,line)
        k = (fn.file, fn.name, fn.line0)
        c = self.fkey.get(k)
        if c is None:
            self.fkey[k] = fn
            c = fn
        return c

    # ---- function pointer flow
    def _flow(self):
        prog = self.prog
        self.field_targets = defaultdict(set)   # field name -> set(Func)
        self.param_targets = defaultdict(set)   # (Func, param index) -> set(Func)
        self.var_targets = defaultdict(set)     # (Func, var id) -> set(Func)
        self.global_targets = defaultdict(set)  # global var name -> set(Func)
        self.addr_taken = set()
        pending = []   # (Func target, ('param', callee Func, index))

        def classify_use(tree, unit, n, target, owner_fn):
            """n is a ref node to function `target` (not in callee position).
            Walk up through casts / conditional operators to find the sink."""
            cur = n
            while True:
                p = tree.parent(cur)
                if p is None:
                    return ("unknown",)
                pk = tree.nodes[p]["k"]
                if pk in ("cast", "opaque") or (pk in ("cond", "bcond") and tree.nodes[p]["c"][0] != cur):
                    cur = p
                    continue
                if pk == "un" and tree.nodes[p]["o"] in ("&", "*"):
                    cur = p
                    continue
                if pk == "call":
                    idx = tree.nodes[p]["c"].index(cur) - 1
                    if idx < 0:
                        return ("callee",)
                    callee = tree.nodes[p].get("o")
                    return ("arg", callee, idx, p)
                if pk == "bin" and tree.nodes[p]["o"] == "=" and tree.nodes[p]["c"][1] == cur:
                    lhs = tree.strip(tree.nodes[p]["c"][0])
                    ln = tree.nodes[lhs]
                    if ln["k"] == "mem":
                        return ("field", ln["o"])
                    if ln["k"] == "ref":
                        if "d" in ln:
                            return ("var", ln["d"])
                        return ("global", ln["o"])
                    if ln["k"] == "idx":
                        b = tree.strip(ln["c"][0])
                        if tree.nodes[b]["k"] == "ref":
                            return ("global", tree.nodes[b]["o"])
                    return ("unknown",)
                if pk == "decl":
                    return ("var", tree.nodes[p].get("d"))
                if pk == "init":
                    # which field of the record does this initializer position fill?
                    tname = (tree.type(p) or "")
                    if tname.startswith("struct "):
                        rec = unit.records.get(tname[7:].split("[")[0].strip())
                        if rec:
                            idx = tree.nodes[p]["c"].index(cur)
                            if idx < len(rec["fields"]):
                                return ("field", rec["fields"][idx]["name"])
                    return ("init", p)
                if pk == "ret":
                    return ("ret",)
                return ("unknown",)

        self._uses = []
        for u in prog.units:
            trees = [(fn, fn) for fn in u.functions.values()] + [(g, None) for g in u.globals if g.nodes]
            for tree, owner in trees:
                for i, nd in enumerate(tree.nodes):
                    if nd["k"] == "ref" and nd.get("dk") == "f":
                        target = self.resolve(u, nd["o"])
                        use = classify_use(tree, u, i, target, owner)
                        if use[0] == "callee":
                            continue
                        if target is None:
                            continue
                        self.addr_taken.add(target)
                        self._uses.append((tree, u, owner, i, target, use))
        # seed
        work = []
        for (tree, u, owner, i, target, use) in self._uses:
            kind = use[0]
            if kind == "field":
                self.field_targets[use[1]].add(target)
            elif kind == "var" and owner is not None and use[1] is not None:
                self.var_targets[(owner.name, owner.file, use[1])].add(target)
            elif kind == "global":
                self.global_targets[use[1]].add(target)
            elif kind == "init":
                # initializer of a global table: attribute to the global's name and
                # to every field name (we do not track which struct field)
                gname = getattr(tree, "name", None)
                if owner is None and gname:
                    self.global_targets[gname].add(target)
                else:
                    self.global_targets["<init>"].add(target)
            elif kind == "arg":
                callee = self.resolve(u, use[1]) if use[1] else None
                if callee is not None:
                    work.append((target, callee, use[2]))
                # external callee (qsort, signal, funopen): calls back - handled as unresolved set
                else:
                    self.global_targets["<external-callback>"].add(target)
            else:
                self.global_targets["<unknown>"].add(target)
        # propagate through parameters: param p of g -> stored to field / passed on
        seen = set()
        while work:
            target, g, idx = work.pop()
            if (target, g.name, g.file, idx) in seen:
                continue
            seen.add((target, g.name, g.file, idx))
            if idx >= len(g.params):
                continue
            self.param_targets[(g.name, g.file, idx)].add(target)
            pv = g.params[idx]
            for i, nd in enumerate(g.nodes):
                if nd["k"] == "ref" and nd.get("d") == pv:
                    use = self._classify_param_use(g, i)
                    if use[0] == "field":
                        self.field_targets[use[1]].add(target)
                    elif use[0] == "arg":
                        callee = self.resolve(g.unit, use[1]) if use[1] else None
                        if callee is not None:
                            work.append((target, callee, use[2]))
                    elif use[0] == "var":
                        self.var_targets[(g.name, g.file, use[1])].add(target)

    def _classify_param_use(self, g, n):
        cur = n
        while True:
            p = g.parent(cur)
            if p is None:
                return ("none",)
            pk = g.nodes[p]["k"]
            if pk in ("cast", "opaque") or (pk in ("cond", "bcond") and g.nodes[p]["c"][0] != cur):
                cur = p
                continue
            if pk == "call":
                idx = g.nodes[p]["c"].index(cur) - 1
                if idx < 0:
                    return ("callee",)
                return ("arg", g.nodes[p].get("o"), idx)
            if pk == "bin" and g.nodes[p]["o"] == "=" and g.nodes[p]["c"][1] == cur:
                lhs = g.strip(g.nodes[p]["c"][0])
                ln = g.nodes[lhs]
                if ln["k"] == "mem":
                    return ("field", ln["o"])
                if ln["k"] == "ref" and "d" in ln:
                    return ("var", ln["d"])
            if pk == "decl":
                return ("var", g.nodes[p].get("d"))
            return ("none",)

    def indirect_targets(self, fn, call_node):
        """(description, set of Func or None if unresolved)"""
        callee = fn.strip(fn.nodes[call_node]["c"][0])
        # strip derefs
        while fn.nodes[callee]["k"] == "un" and fn.nodes[callee]["o"] == "*":
            callee = fn.strip(fn.nodes[callee]["c"][0])
        nd = fn.nodes[callee]
        if nd["k"] == "mem":
            t = self.field_targets.get(nd["o"])
            return ("field:" + nd["o"], set(t) if t else set())
        if nd["k"] == "ref" and "d" in nd:
            vid = nd["d"]
            if vid in fn.params:
                t = self.param_targets.get((fn.name, fn.file, fn.params.index(vid)), set())
                return ("param:" + nd["o"], set(t))
            t = set(self.var_targets.get((fn.name, fn.file, vid), set()))
            # a local assigned from a field read: f = x->...field
            for i, n2 in enumerate(fn.nodes):
                src = None
                if n2["k"] == "bin" and n2["o"] == "=":
                    lhs = fn.strip(n2["c"][0])
                    if fn.nodes[lhs]["k"] == "ref" and fn.nodes[lhs].get("d") == vid:
                        src = fn.strip(n2["c"][1])
                elif n2["k"] == "decl" and n2.get("d") == vid and n2.get("c"):
                    src = fn.strip(n2["c"][0])
                if src is not None:
                    sn = fn.nodes[src]
                    if sn["k"] == "mem":
                        t |= self.field_targets.get(sn["o"], set())
                    elif sn["k"] == "call":
                        return ("var:" + nd["o"] + " (call result)", None)
            return ("var:" + nd["o"], t)
        if nd["k"] == "ref" and nd.get("dk") == "g":
            return ("global:" + nd["o"], set(self.global_targets.get(nd["o"], set())))
        if nd["k"] == "idx":
            b = fn.strip(nd["c"][0])
            if fn.nodes[b]["k"] == "ref":
                return ("table:" + fn.nodes[b]["o"], set(self.global_targets.get(fn.nodes[b]["o"], set())))
        return ("expr:" + fn.txt(callee)[:60], None)

    # ---- edges
    def _build(self):
        for fn in self.funcs:
            for i, nd in enumerate(fn.nodes):
                if nd["k"] != "call":
                    continue
                name = nd.get("o")
                if name:
                    tgt = self.resolve(fn.unit, name)
                    if tgt is not None:
                        self.edges[fn].add(tgt)
                        self.call_sites[tgt].append((fn, i))
                    else:
                        self.ext_calls[fn].add(name)
                else:
                    descr, tg = self.indirect_targets(fn, i)
                    self.indirect[fn].append((i, descr, tg))
                    if tg is None:
                        tg = self.addr_taken
                    for t in tg:
                        self.edges[fn].add(t)
                        self.call_sites[t].append((fn, i))

    # ---- queries
    def reach(self, roots, cut=None):
        """set of Funcs reachable from roots; cut(caller, callee) -> True to drop an edge"""
        seen = set()
        st = list(roots)
        parent = {}
        while st:
            f = st.pop()
            if f in seen:
                continue
            seen.add(f)
            for g in self.edges.get(f, ()):
                if cut and cut(f, g):
                    continue
                if g not in seen:
                    parent.setdefault(g, f)
                    st.append(g)
        self._last_parent = parent
        return seen

    def path(self, root_set, target):
        """a call path from some root to target using the parents of the last reach()"""
        p = [target]
        while p[-1] not in root_set and p[-1] in self._last_parent:
            p.append(self._last_parent[p[-1]])
        p.reverse()
        return [f.name for f in p]

    def reaches_any(self, targets_names):
        """set of Funcs from which some function named in targets_names (or an
        external of that name) is reachable (backward closure)"""
        rev = defaultdict(set)
        for f, gs in self.edges.items():
            for g in gs:
                rev[g].add(f)
        start = [f for f in self.funcs if f.name in targets_names]
        for f, names in self.ext_calls.items():
            if names & targets_names:
                start.append(f)
        seen = set()
        st = list(start)
        while st:
            f = st.pop()
            if f in seen:
                continue
            seen.add(f)
            st.extend(rev.get(f, ()))
        return seen

    def sccs(self, nodes=None):
        """Tarjan SCCs (iterative) restricted to `nodes`"""
        nodes = set(nodes) if nodes is not None else set(self.funcs)
        index = {}
        low = {}
        onstack = set()
        stack = []
        out = []
        counter = [0]
        for root in nodes:
            if root in index:
                continue
            work = [(root, iter([g for g in self.edges.get(root, ()) if g in nodes]))]
            index[root] = low[root] = counter[0]
            counter[0] += 1
            stack.append(root)
            onstack.add(root)
            while work:
                v, it = work[-1]
                advanced = False
                for w in it:
                    if w not in index:
                        index[w] = low[w] = counter[0]
                        counter[0] += 1
                        stack.append(w)
                        onstack.add(w)
                        work.append((w, iter([g for g in self.edges.get(w, ()) if g in nodes])))
                        advanced = True
                        break
                    elif w in onstack:
                        low[v] = min(low[v], index[w])
                if advanced:
                    continue
                work.pop()
                if work:
                    low[work[-1][0]] = min(low[work[-1][0]], low[v])
                if low[v] == index[v]:
                    comp = []
                    while True:
                        w = stack.pop()
                        onstack.discard(w)
                        comp.append(w)
                        if w is v:
                            break
                    out.append(comp)
        return out
