"""E3: a small exact reader for chibi-scheme's own source syntax and the
library (.sld) graph built from it.  Nothing here evaluates Scheme."""
import os

import extract


class Sym(str):
    __slots__ = ("line",)


class Str(str):
    __slots__ = ("line",)


class Char(str):
    __slots__ = ("line",)


class Num(str):
    __slots__ = ("line",)


class Lst(list):
    """a proper or improper list; .tail is the dotted tail or None; .kind in '(', '#(', '#u8('"""
    __slots__ = ("line", "tail", "kind")

    def __init__(self, *a):
        super().__init__(*a)
        self.line = 0
        self.tail = None
        self.kind = "("


class ReadError(Exception):
    pass


DELIMS = set(" \t\n\r\f()[]\";'`,")
QUOTES = {"'": "quote", "`": "quasiquote", ",": "unquote", ",@": "unquote-splicing"}


class Reader:
    def __init__(self, text, path="<string>"):
        self.s = text
        self.i = 0
        self.line = 1
        self.path = path

    def err(self, msg):
        raise ReadError("%s:%d: %s" % (self.path, self.line, msg))

    def peek(self):
        return self.s[self.i] if self.i < len(self.s) else ""

    def adv(self):
        c = self.s[self.i]
        self.i += 1
        if c == "\n":
            self.line += 1
        return c

    def skip_ws(self):
        while self.i < len(self.s):
            c = self.s[self.i]
            if c in " \t\n\r\f":
                self.adv()
            elif c == ";":
                while self.i < len(self.s) and self.s[self.i] != "\n":
                    self.i += 1
            elif c == "#" and self.s.startswith("#|", self.i):
                depth = 0
                while self.i < len(self.s):
                    if self.s.startswith("#|", self.i):
                        depth += 1
                        self.i += 2
                    elif self.s.startswith("|#", self.i):
                        depth -= 1
                        self.i += 2
                        if depth == 0:
                            break
                    else:
                        self.adv()
            elif c == "#" and self.s.startswith("#;", self.i):
                self.i += 2
                self.read()     # discard one datum
            elif c == "#" and self.s.startswith("#!", self.i) and self.line == 1 and self.i == 0:
                while self.i < len(self.s) and self.s[self.i] != "\n":
                    self.i += 1
            else:
                break

    def read_all(self):
        out = []
        while True:
            self.skip_ws()
            if self.i >= len(self.s):
                return out
            out.append(self.read())

    def read(self):
        self.skip_ws()
        if self.i >= len(self.s):
            self.err("unexpected eof")
        line = self.line
        c = self.peek()
        if c in "([":
            self.adv()
            return self.read_list(line, "(")
        if c in ")]":
            self.err("unexpected close paren")
        if c == '"':
            return self.read_string(line)
        if c == "|":
            return self.read_atom(line)
        if c in "'`":
            self.adv()
            l = Lst([self.mk(Sym, QUOTES[c], line), self.read()])
            l.line = line
            return l
        if c == ",":
            self.adv()
            name = "unquote"
            if self.peek() == "@":
                self.adv()
                name = "unquote-splicing"
            l = Lst([self.mk(Sym, name, line), self.read()])
            l.line = line
            return l
        if c == "#":
            n = self.s[self.i + 1] if self.i + 1 < len(self.s) else ""
            if n == "(":
                self.i += 2
                return self.read_list(line, "#(")
            if self.s.startswith("#u8(", self.i):
                self.i += 4
                return self.read_list(line, "#u8(")
            if n == "\\":
                self.i += 2
                # a character: at least one char, then until delimiter
                start = self.i
                self.adv()
                while self.i < len(self.s) and self.s[self.i] not in DELIMS:
                    self.adv()
                return self.mk(Char, self.s[start:self.i], line)
            if n in "'`,":
                self.i += 2
                name = {"'": "syntax", "`": "quasisyntax", ",": "unsyntax"}[n]
                if n == "," and self.peek() == "@":
                    self.adv()
                    name = "unsyntax-splicing"
                l = Lst([self.mk(Sym, name, line), self.read()])
                l.line = line
                return l
            if n.isdigit():
                # datum label #n= / #n#
                j = self.i + 1
                while j < len(self.s) and self.s[j].isdigit():
                    j += 1
                if j < len(self.s) and self.s[j] in "=#":
                    self.i = j + 1
                    if self.s[j] == "=":
                        return self.read()
                    return self.mk(Sym, "#label#", line)
        return self.read_atom(line)

    def mk(self, cls, v, line):
        x = cls(v)
        x.line = line
        return x

    def read_list(self, line, kind):
        out = Lst()
        out.line = line
        out.kind = kind
        while True:
            self.skip_ws()
            if self.i >= len(self.s):
                self.err("eof in list opened at line %d" % line)
            c = self.peek()
            if c in ")]":
                self.adv()
                return out
            if c == "." and self.i + 1 < len(self.s) and self.s[self.i + 1] in DELIMS and out:
                self.adv()
                out.tail = self.read()
                self.skip_ws()
                if self.peek() not in ")]":
                    self.err("bad dotted list")
                self.adv()
                return out
            out.append(self.read())

    def read_string(self, line):
        self.adv()
        buf = []
        while True:
            if self.i >= len(self.s):
                self.err("eof in string")
            c = self.adv()
            if c == '"':
                break
            if c == "\\":
                d = self.adv()
                if d == "x":
                    h = ""
                    while self.peek() != "" and self.peek() in "0123456789abcdefABCDEF":
                        h += self.adv()
                    if self.peek() == ";":
                        self.adv()
                    try:
                        buf.append(chr(int(h, 16)))
                    except ValueError:
                        buf.append("?")
                elif d in "\n \t":
                    # line continuation: skip trailing ws, newline, leading ws
                    while self.peek() in " \t":
                        self.adv()
                    if self.peek() == "\n":
                        self.adv()
                    while self.peek() in " \t":
                        self.adv()
                else:
                    buf.append({"n": "\n", "t": "\t", "r": "\r", "a": "\a", "b": "\b", "0": "\0"}.get(d, d))
            else:
                buf.append(c)
        return self.mk(Str, "".join(buf), line)

    def read_atom(self, line):
        buf = []
        while self.i < len(self.s):
            c = self.s[self.i]
            if c == "|":
                self.adv()
                while self.i < len(self.s) and self.s[self.i] != "|":
                    if self.s[self.i] == "\\":
                        self.adv()
                    buf.append(self.adv())
                self.adv()
                continue
            if c in DELIMS:
                break
            buf.append(self.adv())
        t = "".join(buf)
        if not t:
            self.err("empty atom at %r" % self.s[self.i:self.i + 10])
        c0 = t[0]
        if t in ("#t", "#f", "#true", "#false"):
            return self.mk(Num, t, line)      # booleans are self-evaluating data, not identifiers
        if c0.isdigit() or (c0 in "+-." and len(t) > 1 and (t[1].isdigit() or t[1] == ".")) or \
                (c0 == "#" and len(t) > 1 and t[1] in "xXbBoOdDeEiI"):
            return self.mk(Num, t, line)
        return self.mk(Sym, t, line)


def read_file(path):
    with open(path, encoding="utf-8", errors="replace") as f:
        return Reader(f.read(), path).read_all()


def is_sym(x, name=None):
    return isinstance(x, Sym) and (name is None or x == name)


def head(x):
    return x[0] if isinstance(x, Lst) and x and isinstance(x[0], Sym) else None


# ------------------------------------------------------------------ library graph

def libname(x):
    return tuple(str(p) for p in x)


class Library:
    def __init__(self, name, path):
        self.name = name
        self.path = path
        self.exports = {}        # external name -> internal name
        self.imports = []        # import sets (raw)
        self.includes = []       # scheme files
        self.shared = []         # include-shared names
        self.body = []           # (begin ...) forms
        self.defines = set()


def _collect_decls(lib, forms, libdir, features):
    for d in forms:
        h = head(d)
        if h == "export":
            for e in d[1:]:
                if isinstance(e, Sym):
                    lib.exports[str(e)] = str(e)
                elif head(e) == "rename" and len(e) == 3:
                    lib.exports[str(e[2])] = str(e[1])
        elif h == "import":
            lib.imports.extend(d[1:])
        elif h in ("include", "include-ci"):
            for f in d[1:]:
                lib.includes.append(os.path.join(libdir, str(f)))
        elif h == "include-shared":
            for f in d[1:]:
                lib.shared.append(str(f))
        elif h == "include-library-declarations":
            for f in d[1:]:
                p = os.path.join(libdir, str(f))
                if os.path.exists(p):
                    _collect_decls(lib, read_file(p), libdir, features)
        elif h == "begin":
            lib.body.extend(d[1:])
        elif h == "cond-expand":
            for clause in d[1:]:
                if not isinstance(clause, Lst) or not clause:
                    continue
                if feature_match(clause[0], features):
                    _collect_decls(lib, clause[1:], libdir, features)
                    break


FEATURES = {"chibi", "r7rs", "full-unicode", "threads", "modules", "dynamic-loading", "ratios", "complex",
            "bignum", "linux", "unix", "posix", "little-endian", "64bit", "else", "string-index", "uvector",
            "utf-8", "auto-force", "weak-references"}


def feature_match(req, features):
    if isinstance(req, Sym):
        return str(req) in features
    h = head(req)
    if h == "and":
        return all(feature_match(r, features) for r in req[1:])
    if h == "or":
        return any(feature_match(r, features) for r in req[1:])
    if h == "not":
        return not feature_match(req[1], features)
    if h == "library":
        return True
    return False


def load_libraries(root=None, features=FEATURES):
    root = root or extract.REPO
    libroot = os.path.join(root, "lib")
    libs = {}
    for dp, dn, fn in os.walk(libroot):
        for f in fn:
            if not f.endswith(".sld"):
                continue
            p = os.path.join(dp, f)
            try:
                forms = read_file(p)
            except ReadError:
                continue
            for form in forms:
                if head(form) in ("define-library", "library") and len(form) > 1 and isinstance(form[1], Lst):
                    lib = Library(libname(form[1]), p)
                    _collect_decls(lib, form[2:], os.path.dirname(p), features)
                    libs[lib.name] = lib
    return libs


def import_base(iset):
    """the library name an import set draws from, plus a function mapping an
    imported (local) name back to the exported name (or None if not imported)"""
    h = head(iset)
    if h in ("only", "except", "rename", "prefix", "drop-prefix") and len(iset) > 1 and isinstance(iset[1], Lst):
        base, back = import_base(iset[1])
        if h == "only":
            names = {str(x) for x in iset[2:]}
            return base, (lambda n, back=back, names=names: back(n) if n in names else None)
        if h == "except":
            names = {str(x) for x in iset[2:]}
            return base, (lambda n, back=back, names=names: None if n in names else back(n))
        if h == "rename":
            m = {str(p[1]): str(p[0]) for p in iset[2:] if isinstance(p, Lst) and len(p) == 2}
            src = set(m.values())
            return base, (lambda n, back=back, m=m, src=src: back(m[n]) if n in m else (None if n in src else back(n)))
        if h == "prefix":
            pre = str(iset[2])
            return base, (lambda n, back=back, pre=pre: back(n[len(pre):]) if n.startswith(pre) else None)
        if h == "drop-prefix":
            pre = str(iset[2])
            return base, (lambda n, back=back, pre=pre: back(pre + n))
    return libname(iset), (lambda n: n)


def visible_primitives(libs, roots):
    """set of (library name, internal name) pairs such that the name - as defined
    inside that library (a Scheme define or a primitive of its include-shared
    object) - is reachable through export/import/rename chains from an export of a
    root library."""
    seen = set()
    work = []
    for r in roots:
        lib = libs.get(r)
        if lib is None:
            continue
        for ext, internal in lib.exports.items():
            work.append((r, internal))
    while work:
        lname, n = work.pop()
        if (lname, n) in seen:
            continue
        seen.add((lname, n))
        lib = libs.get(lname)
        if lib is None:
            continue
        for iset in lib.imports:
            base, back = import_base(iset)
            src = back(n)
            if src is None:
                continue
            bl = libs.get(base)
            if bl is None:
                continue
            if src in bl.exports:
                work.append((base, bl.exports[src]))
    return seen


R7RS_SMALL = [("scheme", x) for x in
              "base case-lambda char complex cxr eval file inexact lazy load process-context read repl time write r5rs".split()]


def shared_key(lib, shared):
    """'chibi/io/io' style key (path under lib/, no extension) of an include-shared object"""
    libroot = lib.path[:lib.path.index("/lib/") + 5]
    return os.path.relpath(os.path.normpath(os.path.join(os.path.dirname(lib.path), shared)), libroot)


def unit_key(display):
    """key of a parsed C unit: '_build/lib/chibi/io/io.c' or 'lib/chibi/ast.c' -> 'chibi/io/io'"""
    d = display
    if d.startswith("_build/"):
        d = d[len("_build/"):]
    if d.startswith("lib/"):
        return d[4:].rsplit(".", 1)[0]
    return None


def scope_a_names(root=None, extra_libs=()):
    """{unit key: set of Scheme names} whose primitives are user-visible through the
    R7RS-small libraries (or the explicitly named extra libraries, fully)"""
    libs = load_libraries(root)
    vis = visible_primitives(libs, R7RS_SMALL)
    out = {}
    for (lname, n) in vis:
        lib = libs.get(lname)
        if lib is None:
            continue
        for sh in lib.shared:
            out.setdefault(shared_key(lib, sh), set()).add(n)
    for ln in extra_libs:
        lib = libs.get(ln)
        if lib:
            for sh in lib.shared:
                out.setdefault(shared_key(lib, sh), set()).add("*")
    return out, libs
