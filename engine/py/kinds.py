"""Rule family F2: kind-set refinement ("guard dominates access").

Abstract value of a tracked sexp-typed expression = the set of runtime kinds it
may have: immediate kinds (fixnum, char, ...) and heap tags (`t<n>` for core
types, `tuser` for tags >= SEXP_NUM_CORE_TYPES, `tdyn` for a tag that was
compared against a non-constant).  Branch edges narrow it (true edge) or
subtract from it (false edge); assignments to a variable mentioned in the
expression reset it; joins take the union.  A typed access `X->value.M.f`
requires kinds(X) to be inside the tags whose type row describes member M.
"""
import os

import extract
import tables
from cfg import implied, BRANCH_TERMS

IMM = None      # kind name -> (mask, tag)  (from selftest/witness/tagprobe.c)
WITNESS = os.path.join(extract.VERIF, "selftest", "witness", "tagprobe.c")


class KindModel:
    def __init__(self, prog):
        self.prog = prog
        wp = extract.load_program(prog.config, only={"<none>"}, extra_sources=[(WITNESS, [])])
        u = wp.units[0]
        self.imm = {}
        for fname, fn in u.functions.items():
            if not fname.startswith("probe_"):
                continue
            k = fname[len("probe_"):]
            pat = None
            for i, nd in enumerate(fn.nodes):
                if nd["k"] == "bin" and nd["o"] == "==":
                    pat = mask_test(fn, i)
                    if pat:
                        break
                    # probe_extended: x == CONST
                    cv = fn.const_val(nd["c"][1])
                    if cv is not None:
                        pat = (None, 255, cv & 255)
            if pat:
                self.imm[k] = (pat[1], pat[2])
        if "pointer" not in self.imm or "fixnum" not in self.imm:
            raise extract.AnalysisBroken("tag probes did not yield the pointer/fixnum bit patterns")
        self.pointer_pat = self.imm.pop("pointer")
        # drop aliases (string cursors == fixnums when not disjoint)
        seen = {}
        for k, p in sorted(self.imm.items()):
            if p in seen.values():
                continue
            seen[k] = p
        self.imm = seen
        rows, _g = tables.type_rows(prog)
        self.rows = rows
        self.ncore = len(rows)
        self.tags = ["t%d" % r["tag"] for r in rows if r["_member"] is not None or True]
        self.tagname = {r["tag"]: r["_name"] for r in rows}
        self.member_tags = {}
        for r in rows:
            if r["_member"]:
                self.member_tags.setdefault(r["_member"], set()).add("t%d" % r["tag"])
        # members that share a representation with a described member
        self.alias(self.member_tags, "flonum_bits", "flonum")
        # cpointer-shaped user types and records are reached through tuser/tdyn
        self.member_tags.setdefault("cpointer", set()).update({"tuser", "tdyn"})
        self.heap = set(self.tags) | {"tuser", "tdyn"}
        self.immk = set("i:" + k for k in self.imm)
        self.U = frozenset(self.heap | self.immk)
        self.HEAP = frozenset(self.heap)

    @staticmethod
    def alias(d, new, old):
        if old in d:
            d.setdefault(new, set()).update(d[old])

    def kinds_of_const(self, v):
        """kind of an immediate constant value"""
        pm, pt = self.pointer_pat
        out = set()
        for k, (m, t) in self.imm.items():
            if (v & m) == t:
                out.add("i:" + k)
        if not out and (v & pm) == pt:
            return None   # NULL or a raw pointer constant
        # most specific pattern wins (longest mask)
        if len(out) > 1:
            best = max(out, key=lambda k: self.imm[k[2:]][0])
            return {best}
        return out

    def mask_result(self, kind, mask, val):
        """True/False/None: does an object of `kind` pass ((x & mask) == val)?"""
        if kind.startswith("i:"):
            m, t = self.imm[kind[2:]]
        else:
            m, t = self.pointer_pat
        if (mask & m) == mask:
            return (t & mask) == val
        if (t & mask & m) != (val & m & mask):
            return False
        return None

    def tag_num(self, kind):
        if kind.startswith("t") and kind[1:].isdigit():
            return int(kind[1:])
        return None

    def refine(self, cur, test, pol):
        """cur: frozenset of kinds; test: ('mask',m,v) | ('tag',op,K) | ('tagdyn',op) |
        ('eqconst', v) | ('truthy',)"""
        out = set()
        t0 = test[0]
        for k in cur:
            r = None
            if t0 == "mask":
                r = self.mask_result(k, test[1], test[2])
            elif t0 == "tag":
                if k.startswith("i:"):
                    r = None    # reading the tag of an immediate is itself the bug; keep
                else:
                    n = self.tag_num(k)
                    op, K = test[1], test[2]
                    if n is not None:
                        r = {"==": n == K, "!=": n != K, "<": n < K, "<=": n <= K,
                             ">": n > K, ">=": n >= K}[op]
                    else:   # tuser / tdyn : some tag >= ncore
                        if op == "==":
                            r = False if K < self.ncore else None
                        elif op == "!=":
                            r = True if K < self.ncore else None
                        elif op in (">", ">="):
                            r = True if K <= self.ncore else None
                        else:
                            r = False if K <= self.ncore else None
            elif t0 in ("tagdyn", "tagsame"):
                r = None
            elif t0 == "eqconst":
                ks = self.kinds_of_const(test[1])
                if ks is None:
                    r = None if not k.startswith("i:") else False
                else:
                    r = None if k in ks else False
            elif t0 == "truthy":
                # (x) as a condition: non-NULL; no kind information
                r = None
            if r is None or r == pol:
                out.add(k)
        if t0 == "tagdyn" and pol and test[1] == "==":
            # equal to some runtime tag: a heap object of a dynamically chosen type
            out = {k for k in out if not k.startswith("i:")}
            out = {"tdyn"} if out else set()
        return frozenset(out)

    def describe(self, ks):
        if ks == self.U:
            return "anything"
        names = []
        for k in sorted(ks):
            n = self.tag_num(k)
            names.append(self.tagname.get(n, k) if n is not None else k)
        if len(names) > 8:
            return "%d kinds incl. %s" % (len(names), ", ".join(names[:5]))
        return ", ".join(names)


def mask_test(fn, n):
    """((uint)X & M) == V  ->  (X node, M, V)"""
    nd = fn.nodes[n]
    if nd["k"] != "bin" or nd["o"] not in ("==", "!="):
        return None
    a, b = fn.strip(nd["c"][0]), fn.strip(nd["c"][1])
    for l, r in ((a, b), (b, a)):
        ln = fn.nodes[l]
        if ln["k"] == "bin" and ln["o"] == "&":
            x, m = fn.strip(ln["c"][0]), fn.strip(ln["c"][1])
            mv = fn.const_val(m)
            if mv is None:
                x, m = m, x
                mv = fn.const_val(m)
            rv = fn.const_val(r)
            if mv is not None and rv is not None:
                return (x, mv, rv)
    return None


def classify_test(fn, n):
    """interpret node n as a test on some expression: (X node, test tuple) or None.
    Polarity handling is done by the caller via implied()."""
    n = fn.strip(n)
    nd = fn.nodes[n]
    if nd["k"] != "bin":
        return None
    o = nd["o"]
    if o in ("==", "!="):
        mt = mask_test(fn, n)
        if mt:
            x, m, v = mt
            return (fn.strip(x), ("mask", m, v), o == "==")
    if o in ("==", "!=", "<", "<=", ">", ">="):
        a, b = fn.strip(nd["c"][0]), fn.strip(nd["c"][1])
        for l, r, oo in ((a, b, o), (b, a, {"<": ">", ">": "<", "<=": ">=", ">=": "<="}.get(o, o))):
            ln = fn.nodes[l]
            if ln["k"] == "mem" and ln["o"] == "tag" and ln.get("ar"):
                x = fn.strip(ln["c"][0])
                kv = fn.const_val(r)
                if kv is not None:
                    if oo == "!=":
                        return (x, ("tag", "==", kv), False)
                    return (x, ("tag", oo, kv), True)
                if oo in ("==", "!="):
                    rn = fn.nodes[r]
                    if rn["k"] == "mem" and rn["o"] == "tag" and rn.get("ar"):
                        # same tag as another object: nothing is learnt about which tag
                        return (x, ("tagsame",), oo == "==")
                    return (x, ("tagdyn", "=="), oo == "==")
                return None
        if o in ("==", "!="):
            for l, r in ((a, b), (b, a)):
                rv = fn.const_val(r)
                if rv is not None and fn.type(l) == tables.SEXP_T and rv != 0:
                    return (l, ("eqconst", rv), o == "==")
    return None


def _predicate_tests(g, n, depth=0):
    """tests that hold when the expression n of predicate function g is true: conjuncts that classify_test
    understands, looking through && and through calls to further one-return predicates of the same unit"""
    out = []
    n = g.strip(n)
    nd = g.nodes[n]
    if depth > 6:
        return out
    if nd["k"] == "bin" and nd["o"] == "&&":
        out += _predicate_tests(g, nd["c"][0], depth + 1)
        out += _predicate_tests(g, nd["c"][1], depth + 1)
        return out
    if nd["k"] == "bin" and nd["o"] == "!=" and g.const_val(nd["c"][1]) == 0:
        return _predicate_tests(g, nd["c"][0], depth + 1)
    ct = classify_test(g, n)
    if ct:
        out.append(ct)
        return out
    if nd["k"] == "call" and nd.get("o"):
        h = g.unit.functions.get(nd["o"])
        if h is not None and h.blocks and h is not g:
            rets = [h.strip(x["c"][0]) for x in h.nodes if x["k"] == "ret" and x.get("c")]
            if len(rets) == 1:
                args = nd["c"][1:]
                for (x, test, tpol) in _predicate_tests(h, rets[0], depth + 1):
                    xn = h.nodes[x]
                    if xn["k"] == "ref" and xn.get("d") in h.params:
                        ai = h.params.index(xn["d"])
                        if ai < len(args):
                            out.append((g.strip(args[ai]), test, tpol))
    return out


class KindAnalysis:
    """forward dataflow over one function.

    tracked: dict text -> initial kindset for user-controlled roots (parameters).
    Locals assigned from a tracked expression or from a load out of a
    user-controlled container become tracked themselves (value U or copy)."""

    CONTAINER_FIELDS = {("pair", "car"), ("pair", "cdr")}

    def __init__(self, model, fn, param_kinds):
        self.m = model
        self.fn = fn
        self.param_kinds = param_kinds      # var id -> kindset
        self.sticky = set()                 # var ids that stay tracked: an unknown assignment makes them U again
        self.probes = {}                    # node -> expression node: record kinds of the expression there
        self.probe_results = {}             # node -> kindset or None
        self.obligations = []               # (node, root text, required set, have set, ok, what)
        self.calls_out = []                 # (call node, callee name, {arg index: kindset})
        self._refs = {}

    # --- which expressions are user controlled
    def user_origin(self, n, state):
        """kindset if expression n (stripped) denotes a user-controlled value, else None (trusted)"""
        fn = self.fn
        n = fn.strip(n)
        t = fn.txt(n)
        if t in state:
            return state[t]
        nd = fn.nodes[n]
        if nd["k"] == "ref" and "d" in nd:
            return None      # untracked local / param
        if nd["k"] == "mem":
            root, path = fn.mempath(n)
            if len(path) == 3 and path[0] == "value" and (path[1], path[2]) in self.CONTAINER_FIELDS:
                if self.user_origin(root, state) is not None:
                    return self.m.U
        if nd["k"] == "idx":
            # element of a vector's data: (sexp*)((char*)V + k))[i]
            b = fn.strip(nd["c"][0])
            r = flex_root(fn, b)
            if r is not None and fn.type(n) == tables.SEXP_T and self.user_origin(r, state) is not None:
                return self.m.U
        if nd["k"] in ("cond",):
            a = self.user_origin(nd["c"][1], state)
            b = self.user_origin(nd["c"][2], state)
            if a is not None or b is not None:
                return frozenset((a or frozenset()) | (b or frozenset())) if (a is not None and b is not None) else self.m.U
        return None

    def refs(self, text_node):
        return self.fn.refs_in(text_node)

    def run(self):
        fn, m = self.fn, self.m
        init = {}
        self._text_vars = {}
        for vid, ks in self.param_kinds.items():
            name = fn.vars[vid]["n"]
            init[name] = ks
            self._text_vars[name] = {vid}
        order = fn.rpo()
        instate = {fn.entry: init}
        work = list(order)
        inwork = set(work)
        rpo_index = {b: i for i, b in enumerate(order)}
        iters = 0
        self._record = False
        while work:
            work.sort(key=lambda b: rpo_index.get(b, 0))
            b = work.pop(0)
            inwork.discard(b)
            iters += 1
            if iters > 20000:
                raise extract.AnalysisBroken("kind analysis did not converge in %s" % fn.name)
            st = instate.get(b)
            if st is None:
                continue
            outs = self.flow_block(b, dict(st))
            for succ, s2 in outs:
                old = instate.get(succ)
                if old is None:
                    instate[succ] = s2
                    changed = True
                else:
                    changed = False
                    new = dict(old)
                    # join: union per text; a text missing on one side keeps no fact (drop)
                    for t in list(new.keys()):
                        if t in s2:
                            u = new[t] | s2[t]
                            if u != new[t]:
                                new[t] = u
                                changed = True
                        else:
                            del new[t]
                            changed = True
                    if changed:
                        instate[succ] = new
                if changed and succ not in inwork:
                    work.append(succ)
                    inwork.add(succ)
        # final pass: record obligations with the fixpoint states
        self._record = True
        for b in order:
            st = instate.get(b)
            if st is not None:
                self.flow_block(b, dict(st))
        return self

    def kill_var(self, state, vid):
        for t in list(state.keys()):
            if vid in self._text_vars.get(t, ()):
                del state[t]

    def track(self, state, node, ks):
        t = self.fn.txt(node)
        state[t] = ks
        self._text_vars[t] = self.fn.refs_in(node)

    def track_flag(self, state, vid, rhs):
        """`int ok = <test>;  ... if (!ok) return ...;`: a non-sexp local assigned from an expression that
        contains a recognised test stands for that test until it or a variable of the test is redefined
        (kill_var) or a field the test reads is stored to"""
        fn = self.fn
        rhs = fn.strip(rhs)
        if not self._has_test(rhs):
            return
        key = "?" + fn.vars[vid]["n"]
        if vid in fn.refs_in(rhs):
            return
        state[key] = frozenset([("c", rhs)])
        self._text_vars[key] = {vid} | set(fn.refs_in(rhs))

    def _has_test(self, n, depth=0):
        fn = self.fn
        n = fn.strip(n)
        if classify_test(fn, n):
            return True
        nd = fn.nodes[n]
        if nd["k"] == "call" and nd.get("o"):
            g = fn.unit.functions.get(nd["o"])
            if g is not None and g.blocks and g is not fn:
                rets = [g.strip(x["c"][0]) for x in g.nodes if x["k"] == "ret" and x.get("c")]
                if len(rets) == 1 and _predicate_tests(g, rets[0]):
                    return True
        if depth < 8 and ((nd["k"] == "bin" and nd["o"] in ("&&", "||", "==", "!=")) or (nd["k"] == "un" and nd["o"] == "!")
                          or nd["k"] == "cond"):
            return any(self._has_test(c, depth + 1) for c in nd.get("c", ()))
        return False

    def flow_block(self, bid, state):
        fn, m = self.fn, self.m
        b = fn.blocks[bid]
        for e in b.elems:
            nd = fn.nodes[e]
            k = nd["k"]
            if self._record and e in self.probes:
                ks = self.user_origin(self.probes[e], state)
                old = self.probe_results.get(e)
                self.probe_results[e] = ks if old is None or ks is None else (old | ks)
            if k == "mem" and nd.get("ar"):
                self.check_access(e, state)
            elif k == "cast":
                fr = flex_root(fn, e)
                if fr is not None:
                    self.check_flex(e, fr, state)
            elif k == "decl" and "d" in nd:
                vid = nd["d"]
                self.kill_var(state, vid)
                if nd.get("c") and fn.var_type(vid) != tables.SEXP_T:
                    self.track_flag(state, vid, nd["c"][0])
                if nd.get("c") and fn.var_type(vid) == tables.SEXP_T:
                    ks = self.user_origin(nd["c"][0], state)
                    if ks is not None:
                        name = fn.vars[vid]["n"]
                        state[name] = ks
                        self._text_vars[name] = {vid}
            elif k == "bin" and nd["o"] == "=":
                lhs = fn.strip(nd["c"][0])
                ln = fn.nodes[lhs]
                if ln["k"] == "ref" and "d" in ln:
                    vid = ln["d"]
                    ks = None
                    if fn.var_type(vid) == tables.SEXP_T:
                        ks = self.user_origin(nd["c"][1], state)
                        if ks is None and vid in self.sticky:
                            ks = m.U
                    self.kill_var(state, vid)
                    if ks is not None:
                        name = fn.vars[vid]["n"]
                        state[name] = ks
                        self._text_vars[name] = {vid}
                    if fn.var_type(vid) != tables.SEXP_T:
                        self.track_flag(state, vid, nd["c"][1])
                elif ln["k"] == "mem":
                    # a store to a container field invalidates facts about loads of that field
                    f = ln["o"]
                    for t in list(state.keys()):
                        if ("." + f) in t or ("->" + f) in t:
                            del state[t]
                        elif t.startswith("?"):
                            ft = " ".join(fn.txt(cn) for (_c, cn) in state[t])
                            if ("." + f) in ft or ("->" + f) in ft:
                                del state[t]
            elif k == "bin" and nd["o"].endswith("=") and nd["o"] not in ("==", "!=", "<=", ">="):
                lhs = fn.strip(nd["c"][0])
                if fn.nodes[lhs]["k"] == "ref" and "d" in fn.nodes[lhs]:
                    self.kill_var(state, fn.nodes[lhs]["d"])
            elif k == "un" and nd["o"] in ("pre++", "pre--", "post++", "post--", "&"):
                x = fn.strip(nd["c"][0])
                if fn.nodes[x]["k"] == "ref" and "d" in fn.nodes[x]:
                    if nd["o"] != "&":
                        self.kill_var(state, fn.nodes[x]["d"])
            elif k == "call" and self._record:
                self.record_call(e, state)
        outs = []
        for i, succ in enumerate(b.succs):
            if succ is None or succ < 0 or succ == fn.exit:
                continue
            s2 = state
            if b.term in BRANCH_TERMS and b.cond is not None and len(b.succs) == 2:
                s2 = self.refine_cond(dict(state), b.cond, i == 0)
                if s2 is None:
                    continue
            elif b.term == "SwitchStmt" and b.cond is not None:
                s2 = self.apply_switch(dict(state), b, i)
                if s2 is None:
                    continue
            outs.append((succ, s2))
        return outs

    def join_states(self, a, b):
        if a is None:
            return b
        if b is None:
            return a
        out = {}
        for t, ks in a.items():
            if t in b:
                out[t] = ks | b[t]
        return out

    def refine_cond(self, state, cond, pol, depth=0):
        """state after `cond` evaluated to `pol` (None = infeasible); handles !, &&, ||
        (with joins for the disjunctive cases), comparisons with 0 and atomic tests"""
        fn, m = self.fn, self.m
        if state is None or cond is None or cond < 0 or depth > 30:
            return state
        cond = fn.strip(cond)
        nd = fn.nodes[cond]
        k = nd["k"]
        c = nd.get("c", ())
        if k == "un" and nd["o"] == "!":
            return self.refine_cond(state, c[0], not pol, depth + 1)
        if k == "bin" and nd["o"] in ("&&", "||"):
            conj = (nd["o"] == "&&")
            if conj == pol:
                # a && b true  /  a || b false : both sides have value `pol`
                s1 = self.refine_cond(dict(state), c[0], pol, depth + 1)
                return self.refine_cond(s1, c[1], pol, depth + 1)
            # a && b false : !a  or (a and !b)   /   a || b true : a or (!a and b)
            s1 = self.refine_cond(dict(state), c[0], pol, depth + 1)
            s2 = self.refine_cond(dict(state), c[0], not pol, depth + 1)
            s2 = self.refine_cond(s2, c[1], pol, depth + 1)
            return self.join_states(s1, s2)
        if k == "call" and nd.get("o") and depth < 20:
            # a predicate helper of the same unit: `int p(sexp x, ..) { return <tests on x> ; }` - its truth implies
            # what its single return expression implies about the corresponding argument (true branch only: the
            # expression may contain further conjuncts the caller does not see)
            g = fn.unit.functions.get(nd["o"])
            if pol and g is not None and g.blocks and g is not fn and (g.ret_type or "") in ("int", "_Bool", "char", "long"):
                rets = [g.strip(x["c"][0]) for x in g.nodes if x["k"] == "ret" and x.get("c")]
                if len(rets) == 1:
                    args = c[1:]
                    for (x, test, tpol) in _predicate_tests(g, rets[0]):
                        xn = g.nodes[x]
                        if xn["k"] == "ref" and xn.get("d") in g.params and tpol:
                            ai = g.params.index(xn["d"])
                            if ai < len(args):
                                a = fn.strip(args[ai])
                                cur = self.user_origin(a, state)
                                if cur is not None:
                                    new = m.refine(cur, test, True)
                                    if not new:
                                        return None
                                    self.track(state, a, new)
            return state
        if k == "ref" and "d" in nd and fn.type(cond) != tables.SEXP_T:
            fl = state.get("?" + fn.vars[nd["d"]]["n"])
            if fl and len(fl) == 1:
                return self.refine_cond(state, next(iter(fl))[1], pol, depth + 1)
            return state
        ct = classify_test(fn, cond)
        if ct is None and k == "bin" and nd["o"] in ("!=", "=="):
            for a, b in ((0, 1), (1, 0)):
                if fn.const_val(c[b]) == 0 and fn.type(fn.strip(c[a])) != tables.SEXP_T:
                    return self.refine_cond(state, c[a], pol if nd["o"] == "!=" else (not pol), depth + 1)
        if k == "cond":
            # (p ? a : b) as a condition
            s1 = self.refine_cond(self.refine_cond(dict(state), c[0], True, depth + 1), c[1], pol, depth + 1)
            s2 = self.refine_cond(self.refine_cond(dict(state), c[0], False, depth + 1), c[2], pol, depth + 1)
            return self.join_states(s1, s2)
        if not ct:
            return state
        x, test, tpol = ct
        eff = pol if tpol else (not pol)
        cur = self.user_origin(x, state)
        if cur is None:
            return state
        new = m.refine(cur, test, eff)
        if not new:
            return None
        self.track(state, x, new)
        return state

    def apply_switch(self, state, b, i):
        fn, m = self.fn, self.m
        c = fn.strip(b.cond)
        cn = fn.nodes[c]
        if not (cn["k"] == "mem" and cn["o"] == "tag" and cn.get("ar")):
            return state
        x = fn.strip(cn["c"][0])
        cur = self.user_origin(x, state)
        if cur is None:
            return state
        succ = fn.blocks[b.succs[i]]
        mine = (succ.clo, succ.chi if succ.chi is not None else succ.clo) if succ.lk == "case" and succ.clo is not None else None
        if mine and not (succ.lk == "case"):
            mine = None
        if mine:
            new = set()
            for k in cur:
                n = m.tag_num(k)
                if n is not None and mine[0] <= n <= mine[1]:
                    new.add(k)
                elif n is None and not k.startswith("i:") and mine[1] >= m.ncore:
                    new.add(k)
            # fallthrough from a previous case joins at the target anyway
            if not new:
                return None
            self.track(state, x, frozenset(new))
            return state
        # default / past the switch: remove all cased tags
        cased = set()
        for j, t in enumerate(b.succs):
            if j == i or t is None or t < 0:
                continue
            tb = fn.blocks[t]
            if tb.lk == "case" and tb.clo is not None:
                hi = tb.chi if tb.chi is not None else tb.clo
                for v in range(tb.clo, min(hi, 4096) + 1):
                    cased.add("t%d" % v)
        new = frozenset(k for k in cur if k not in cased)
        if not new:
            return None
        self.track(state, x, new)
        return state

    def check_access(self, e, state):
        fn, m = self.fn, self.m
        nd = fn.nodes[e]
        base = fn.strip(nd["c"][0])
        if fn.type(base) != tables.SEXP_T:
            return
        have = self.user_origin(base, state)
        if have is None:
            return
        field = nd["o"]
        if field == "value":
            # look at the member selected by the parent chain
            p = fn.parent(e)
            member = fn.nodes[p]["o"] if p is not None and fn.nodes[p]["k"] == "mem" and not fn.nodes[p].get("ar") else None
            if member is None:
                need = m.HEAP
                what = "slot access (&x->value)"
            else:
                need = frozenset(m.member_tags.get(member, set()))
                pp = fn.parent(p)
                sub = fn.nodes[pp]["o"] if pp is not None and fn.nodes[pp]["k"] == "mem" and not fn.nodes[pp].get("ar") else ""
                what = "value.%s%s" % (member, "." + sub if sub else "")
        else:
            need = m.HEAP
            what = "header field %s" % field
        ok = have <= need
        if self._record:
            self.obligations.append((e, fn.txt(base), need, have, ok, what))

    def check_flex(self, e, root, state):
        fn, m = self.fn, self.m
        if fn.type(root) != tables.SEXP_T:
            return
        have = self.user_origin(root, state)
        if have is None:
            return
        macs = fn.macros(e)
        need = m.HEAP
        what = "trailing data"
        for mac, member in (("sexp_vector_data", "vector"), ("sexp_bytes_data", "bytes"),
                            ("sexp_lsymbol_data", "symbol"), ("sexp_bignum_data", "bignum"),
                            ("sexp_bytecode_data", "bytecode"), ("sexp_stack_data", "stack")):
            if mac in macs:
                need = frozenset(m.member_tags.get(member, set()))
                if member == "bytes":
                    need = need | frozenset(m.member_tags.get("symbol", set()))
                what = "%s (trailing data)" % mac
                break
        ok = have <= need
        if self._record:
            self.obligations.append((e, fn.txt(root), need, have, ok, what))

    def record_call(self, e, state):
        fn = self.fn
        nd = fn.nodes[e]
        name = nd.get("o")
        if not name:
            return
        args = nd["c"][1:]
        ctxs = {}
        for i, a in enumerate(args):
            if fn.type(fn.strip(a)) != tables.SEXP_T and fn.type(a) != tables.SEXP_T:
                continue
            ks = self.user_origin(a, state)
            if ks is not None:
                ctxs[i] = ks
        if ctxs:
            self.calls_out.append((e, name, ctxs))


def flex_root(fn, n):
    """(T*)((char*)X + const)  ->  node X (an object whose trailing data is addressed)"""
    n0 = n
    nd = fn.nodes[n]
    if nd["k"] != "cast":
        return None
    inner = fn.strip(nd["c"][0])
    inn = fn.nodes[inner]
    if inn["k"] == "bin" and inn["o"] == "+":
        a, b = inn["c"]
        an = fn.nodes[a]
        if an["k"] == "cast" and fn.const_val(b) is not None and (fn.type(a) or "").startswith("char"):
            x = fn.strip(a)
            if fn.type(x) == tables.SEXP_T:
                return x
    return None
