"""Loader and helpers for the JSON facts emitted by cfacts (engine E1).

Everything here is a view on the macro-expanded, type-resolved AST and the
clang CFG of one translation unit; rules never look at source text.
"""
import json
import os


class Unit:
    def __init__(self, path, config="default"):
        with open(path) as f:
            d = json.load(f)
        self.path = path
        self.config = config
        self.main_file = d["main_file"]
        self.name = os.path.basename(self.main_file)
        self.types = d["types"]
        self.macros = d["macros"]
        self.functions = {}
        self.func_list = []
        for fd in d["functions"]:
            if fd.get("cfg_failed"):
                continue
            fn = Func(self, fd)
            # a static inline from a header may appear in many units; keep first
            if fn.name not in self.functions:
                self.functions[fn.name] = fn
            self.func_list.append(fn)
        self.protos = {p["name"]: p["type"] for p in d["protos"]}
        self.globals = [Global(self, g) for g in d["globals"]]
        self.records = {r["name"]: r for r in d["records"]}
        self.enums = {e["name"]: e["values"] for e in d["enums"]}
        self.enum_consts = {}
        for e in d["enums"]:
            for n, v in e["values"]:
                self.enum_consts[n] = v
        self.typedefs = {a: b for a, b in d["typedefs"]}

    def tname(self, i):
        return self.types[i] if i is not None and i >= 0 else None


class Tree:
    """A flat node table with helper methods (shared by Func and Global)."""

    def _init_tree(self, unit, nodes, vars_):
        self.unit = unit
        self.nodes = nodes
        self.vars = vars_
        self._parent = None
        self._txt = {}

    # -- basic accessors
    def kind(self, n):
        return self.nodes[n]["k"]

    def kids(self, n):
        return self.nodes[n].get("c", ())

    def op(self, n):
        return self.nodes[n].get("o")

    def line(self, n):
        return self.nodes[n].get("l", 0)

    def type(self, n):
        t = self.nodes[n].get("t")
        return self.unit.types[t] if t is not None else None

    def macros(self, n):
        m = self.nodes[n].get("m")
        return self.unit.macros[m] if m is not None else []

    def value(self, n):
        return self.nodes[n].get("v")

    def parent(self, n):
        if self._parent is None:
            p = {}
            for i, nd in enumerate(self.nodes):
                for c in nd.get("c", ()):
                    if c >= 0:
                        p[c] = i
            self._parent = p
        return self._parent.get(n)

    def strip(self, n):
        """strip casts (explicit) from an expression"""
        while n is not None and n >= 0 and self.nodes[n]["k"] == "cast":
            n = self.nodes[n]["c"][0]
        return n

    def subtree(self, n):
        """all node ids in the subtree of n (pre-order)"""
        out = []
        st = [n]
        while st:
            x = st.pop()
            if x is None or x < 0:
                continue
            out.append(x)
            st.extend(reversed(self.nodes[x].get("c", ())))
        return out

    def refs_in(self, n):
        """set of variable ids referenced anywhere in n"""
        s = set()
        for x in self.subtree(n):
            nd = self.nodes[x]
            if nd["k"] == "ref" and "d" in nd:
                s.add(nd["d"])
        return s

    def calls_in(self, n):
        return [x for x in self.subtree(n) if self.nodes[x]["k"] == "call"]

    def txt(self, n, depth=0):
        """canonical text of an expression, casts and parens dropped"""
        if n is None or n < 0:
            return "?"
        r = self._txt.get(n)
        if r is not None:
            return r
        nd = self.nodes[n]
        k = nd["k"]
        c = nd.get("c", ())
        if depth > 60:
            r = "..."
        elif k == "ref":
            r = nd["o"]
        elif k == "int":
            r = str(nd["v"])
        elif k == "const":
            r = str(nd["v"])
        elif k == "str":
            r = json.dumps(nd.get("s", ""))
        elif k == "flt":
            r = "<float>"
        elif k == "mem":
            r = self.txt(c[0], depth + 1) + ("->" if nd.get("ar") else ".") + nd["o"]
        elif k == "idx":
            r = "%s[%s]" % (self.txt(c[0], depth + 1), self.txt(c[1], depth + 1))
        elif k == "un":
            o = nd["o"]
            if o.startswith("post"):
                r = self.txt(c[0], depth + 1) + o[4:]
            elif o.startswith("pre"):
                r = o[3:] + self.txt(c[0], depth + 1)
            else:
                r = o + self.txt(c[0], depth + 1)
        elif k == "bin":
            r = "(%s %s %s)" % (self.txt(c[0], depth + 1), nd["o"], self.txt(c[1], depth + 1))
        elif k == "cond":
            r = "(%s ? %s : %s)" % tuple(self.txt(x, depth + 1) for x in c)
        elif k == "bcond":
            r = "(%s ?: %s)" % tuple(self.txt(x, depth + 1) for x in c)
        elif k == "call":
            fn = nd.get("o") or ("(*%s)" % self.txt(c[0], depth + 1))
            r = "%s(%s)" % (fn, ", ".join(self.txt(x, depth + 1) for x in c[1:]))
        elif k == "cast":
            r = self.txt(c[0], depth + 1)
        elif k == "init":
            r = "{%s}" % ", ".join(self.txt(x, depth + 1) for x in c)
        elif k == "decl":
            r = "decl %s" % nd.get("o")
            if c:
                r += " = " + self.txt(c[0], depth + 1)
        elif k == "ret":
            r = "return" + ((" " + self.txt(c[0], depth + 1)) if c else "")
        elif k == "opaque":
            r = self.txt(c[0], depth + 1) if c else "<opaque>"
        else:
            r = "<%s>" % k
        self._txt[n] = r
        return r

    def mempath(self, n):
        """For a chain of member accesses return (root node, [fields]) where
        root is the expression the first '->' (or the outermost '.') applies to.
        e.g. x->value.pair.car  ->  (x, ['value','pair','car'])"""
        path = []
        while True:
            nd = self.nodes[n]
            if nd["k"] == "mem":
                path.append(nd["o"])
                n2 = nd["c"][0]
                if nd.get("ar"):
                    path.reverse()
                    return self.strip(n2), path
                n = n2
            else:
                path.reverse()
                return n, path

    def is_const(self, n):
        return self.nodes[n]["k"] in ("int", "const") or (
            self.nodes[n]["k"] == "ref" and self.nodes[n].get("dk") == "e")

    def const_val(self, n):
        n = self.strip(n)
        nd = self.nodes[n]
        if "v" in nd:
            return nd["v"]
        return None

    def float_val(self, n):
        """value of a floating literal (possibly negated); integer constants are returned as they are"""
        n = self.strip(n)
        nd = self.nodes[n]
        if nd["k"] == "flt" and nd.get("s"):
            try:
                return float(nd["s"])
            except ValueError:
                return None
        if nd["k"] == "un" and nd.get("o") == "-":
            v = self.float_val(nd["c"][0])
            return -v if v is not None else None
        return self.const_val(n)


class Block:
    __slots__ = ("id", "elems", "succs", "succs_all", "term", "cond", "lk", "ln",
                 "clo", "chi", "line", "preds")

    def __init__(self, d):
        self.id = d["id"]
        self.elems = d["e"]
        self.succs = d["s"]
        self.succs_all = d.get("sa", d["s"])
        self.term = d.get("term")
        self.cond = d.get("cond")
        self.lk = d.get("lk")
        self.ln = d.get("ln")
        self.clo = d.get("clo")
        self.chi = d.get("chi")
        self.line = d.get("l", 0)
        self.preds = []


class Func(Tree):
    def __init__(self, unit, d):
        self._init_tree(unit, d["nodes"], d["vars"])
        self.name = d["name"]
        self.file = d["file"]
        self.line0 = d["line"]
        self.end_line = d["end_line"]
        self.static = d["static"]
        self.inline = d["inline"]
        self.ret_type = unit.types[d["ret"]]
        self.ftype = unit.types[d["type"]]
        self.variadic = d["variadic"]
        self.params = d["params"]
        self.entry = d["entry"]
        self.exit = d["exit"]
        self.blocks = {}
        for bd in d["blocks"]:
            b = Block(bd)
            self.blocks[b.id] = b
        for b in self.blocks.values():
            for s in b.succs:
                if s is not None and s >= 0:
                    self.blocks[s].preds.append(b.id)
        self._elem_pos = None

    def relfile(self):
        f = self.file
        for p in ("/repo/", ):
            if f.startswith(p):
                return f[len(p):]
        return f

    def where(self, n=None):
        return "%s:%d" % (self.relfile(), self.line(n) if n is not None else self.line0)

    def var(self, vid):
        return self.vars[vid]

    def var_type(self, vid):
        return self.unit.types[self.vars[vid]["t"]]

    def var_by_name(self, name):
        return [i for i, v in enumerate(self.vars) if v["n"] == name]

    def param_names(self):
        return [self.vars[p]["n"] for p in self.params]

    def all_calls(self):
        """(block id, node id) for every call node that is a CFG element"""
        out = []
        for b in self.blocks.values():
            for e in b.elems:
                if self.nodes[e]["k"] == "call":
                    out.append((b.id, e))
        return out

    def reachable_blocks(self):
        seen = set()
        st = [self.entry]
        while st:
            b = st.pop()
            if b in seen:
                continue
            seen.add(b)
            for s in self.blocks[b].succs:
                if s is not None and s >= 0:
                    st.append(s)
        return seen

    def rpo(self):
        """reverse post-order of reachable blocks"""
        seen = set()
        order = []
        st = [(self.entry, 0)]
        seen.add(self.entry)
        while st:
            b, i = st.pop()
            succs = [s for s in self.blocks[b].succs if s is not None and s >= 0]
            if i < len(succs):
                st.append((b, i + 1))
                s = succs[i]
                if s not in seen:
                    seen.add(s)
                    st.append((s, 0))
            else:
                order.append(b)
        order.reverse()
        return order


class Global(Tree):
    def __init__(self, unit, d):
        self._init_tree(unit, d.get("nodes", []), d.get("vars", []))
        self.name = d["name"]
        self.type_s = d["type"]
        self.const = d["const"]
        self.file = d["file"]
        self.line0 = d["line"]
        self.is_def = d["def"]
        self.static = d["static"]
        self.tls = d["tls"]
        self.in_function = d.get("in_function")
        self.init_root = d.get("init_root")

    def relfile(self):
        f = self.file
        return f[len("/repo/"):] if f.startswith("/repo/") else f


class Program:
    """All parsed units of one configuration."""

    def __init__(self, units):
        self.units = units
        self.by_name = {}
        for u in units:
            self.by_name.setdefault(u.name, u)
        self.funcs = {}      # name -> [Func] (non-static: one; static: maybe many)
        for u in units:
            seen = set()
            for fn in u.func_list:
                if fn.name in seen:
                    continue
                seen.add(fn.name)
                self.funcs.setdefault(fn.name, []).append(fn)

    def unit(self, name):
        return self.by_name.get(name)

    def func(self, name, unit=None):
        """resolve a function name the way the linker would: a definition in
        the given unit first, else the unique external definition."""
        if unit is not None and name in unit.functions:
            return unit.functions[name]
        cands = self.funcs.get(name, [])
        ext = [f for f in cands if not f.static]
        if ext:
            return ext[0]
        # static inline in headers: same body everywhere
        hdr = [f for f in cands if f.file.endswith(".h")]
        if hdr:
            return hdr[0]
        if len(cands) == 1:
            return cands[0]      # a static function defined in exactly one unit
        return None

    def all_funcs(self):
        """every distinct function body (header inlines counted once)"""
        seen = set()
        for u in self.units:
            for fn in u.functions.values():
                key = (fn.file, fn.name, fn.line0)
                if key in seen:
                    continue
                seen.add(key)
                yield fn
