#!/usr/bin/env python3
"""Entry point behind /verif/check: ./check <Cxx> --tier quick|thorough [--replay f]"""
import argparse
import importlib
import os
import sys
import time
import traceback

HERE = os.path.dirname(os.path.abspath(__file__))
VERIF = os.path.dirname(os.path.dirname(HERE))
sys.path.insert(0, HERE)
sys.path.insert(0, VERIF)

import extract
import report


def main():
    ap = argparse.ArgumentParser()
    ap.add_argument("prop")
    ap.add_argument("--tier", default=os.environ.get("VERIF_TIER", "quick"))
    ap.add_argument("--replay")
    a = ap.parse_args()
    tier = a.tier if a.tier in ("quick", "thorough") else "quick"
    t0 = time.time()
    prop = a.prop.upper()
    res = report.Result(prop, tier)
    try:
        if not os.path.exists(os.path.join(os.path.dirname(os.path.dirname(os.path.dirname(os.path.abspath(__file__)))),
                                           "rules", "check_%s.py" % prop.lower())):
            # a property that is not claimed (MANIFEST.not_applicable) has no check and gets no evidence file
            print("no check is registered for %s (see MANIFEST.json: not_applicable)" % prop)
            sys.exit(2)
        mod = importlib.import_module("rules.check_" + prop.lower())
        mod.run(res, tier, replay=a.replay)
        res.units = extract.stats["units"]
    except extract.AnalysisBroken as e:
        res.broken.append(str(e))
    except Exception:
        res.broken.append("internal error:\n" + traceback.format_exc())
    code = report.finish(res, t0)
    sys.exit(code)


if __name__ == "__main__":
    main()
