/* Parsed (never compiled or run) on every check: tells the kind engine which
 * bit patterns the immediate-value predicates of include/chibi/sexp.h test. */
#include <chibi/eval.h>

int probe_pointer(sexp x) { return sexp_pointerp(x); }
int probe_fixnum(sexp x) { return sexp_fixnump(x); }
int probe_string_cursor(sexp x) { return sexp_string_cursorp(x); }
int probe_isymbol(sexp x) { return sexp_isymbolp(x); }
int probe_char(sexp x) { return sexp_charp(x); }
int probe_reader_label(sexp x) { return sexp_reader_labelp(x); }
int probe_extended(sexp x) { return x == SEXP_VOID; }
sexp probe_false(void) { return SEXP_FALSE; }
