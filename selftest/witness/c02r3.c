/* Witnesses for rules C02.R3a / C02.R3b (parsed on every run, never compiled into anything).
 * witness_bad_* must be reported, witness_ok_* must be silent. */
#include <chibi/eval.h>

sexp witness_bad_nested_fresh_argument (sexp ctx) {
  /* the new flonum is referenced only from a C temporary while sexp_cons allocates the pair */
  return sexp_cons(ctx, sexp_make_flonum(ctx, 1.0), SEXP_NULL);
}

sexp witness_bad_unrooted_local (sexp ctx) {
  sexp x = sexp_make_flonum(ctx, 1.0);
  sexp y = sexp_cons(ctx, SEXP_ONE, SEXP_NULL);
  sexp_car(y) = x;
  return y;
}

sexp witness_ok_rooted_local (sexp ctx) {
  sexp_gc_var2(x, y);
  sexp_gc_preserve2(ctx, x, y);
  x = sexp_make_flonum(ctx, 1.0);
  y = sexp_cons(ctx, x, SEXP_NULL);
  sexp_gc_release2(ctx);
  return y;
}

sexp witness_ok_no_allocation_after (sexp ctx) {
  sexp x = sexp_make_flonum(ctx, 1.0);
  return x;
}
