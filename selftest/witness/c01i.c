/* Positive/negative witnesses for the index-guard rule (C01.i) and the string-view rule (C01.j).
 * Parsed with the same extractor on every run; never compiled into anything.
 * witness_bad_* must be reported, witness_ok_* must be silent. */
#include <chibi/eval.h>

sexp witness_bad_no_check (sexp ctx, sexp self, sexp_sint_t n, sexp vec, sexp k) {
  return sexp_vector_data(vec)[sexp_unbox_fixnum(k)];
}

sexp witness_bad_upper_only (sexp ctx, sexp self, sexp_sint_t n, sexp vec, sexp k) {
  if (sexp_unbox_fixnum(k) >= (sexp_sint_t)sexp_vector_length(vec))
    return SEXP_FALSE;
  return sexp_vector_data(vec)[sexp_unbox_fixnum(k)];
}

sexp witness_bad_off_by_one (sexp ctx, sexp self, sexp_sint_t n, sexp vec, sexp k) {
  sexp_sint_t i = sexp_unbox_fixnum(k);
  if (i < 0 || i > (sexp_sint_t)sexp_vector_length(vec))
    return SEXP_FALSE;
  return sexp_vector_data(vec)[i];
}

sexp witness_bad_equality_test (sexp ctx, sexp self, sexp_sint_t n, sexp bv, sexp k) {
  sexp_sint_t i = sexp_unbox_fixnum(k);
  if (i < 0 || i == (sexp_sint_t)sexp_bytes_length(bv))
    return SEXP_FALSE;
  return sexp_make_fixnum(sexp_bytes_data(bv)[i]);
}

sexp witness_bad_other_object (sexp ctx, sexp self, sexp_sint_t n, sexp a, sexp b, sexp k) {
  sexp_sint_t i = sexp_unbox_fixnum(k);
  if (i < 0 || i >= (sexp_sint_t)sexp_vector_length(b))
    return SEXP_FALSE;
  return sexp_vector_data(a)[i];
}

sexp witness_bad_index_changed (sexp ctx, sexp self, sexp_sint_t n, sexp vec, sexp k) {
  sexp_sint_t i = sexp_unbox_fixnum(k);
  if (i < 0 || i >= (sexp_sint_t)sexp_vector_length(vec))
    return SEXP_FALSE;
  i += 2;
  return sexp_vector_data(vec)[i];
}

sexp witness_bad_one_branch_only (sexp ctx, sexp self, sexp_sint_t n, sexp vec, sexp k, sexp flag) {
  sexp_sint_t i = sexp_unbox_fixnum(k);
  if (sexp_truep(flag)) {
    if (i < 0 || i >= (sexp_sint_t)sexp_vector_length(vec))
      return SEXP_FALSE;
  }
  return sexp_vector_data(vec)[i];
}

static sexp witness_helper_ref (sexp vec, sexp k) {
  return sexp_vector_data(vec)[sexp_unbox_fixnum(k)];
}

sexp witness_bad_through_helper (sexp ctx, sexp self, sexp_sint_t n, sexp vec, sexp k) {
  if (sexp_unbox_fixnum(k) < 0)
    return SEXP_FALSE;
  return witness_helper_ref(vec, k);
}

sexp witness_ok_through_helper (sexp ctx, sexp self, sexp_sint_t n, sexp vec, sexp k) {
  if (sexp_unbox_fixnum(k) < 0 || sexp_unbox_fixnum(k) >= (sexp_sint_t)sexp_vector_length(vec))
    return SEXP_FALSE;
  return witness_helper_ref(vec, k);
}

sexp witness_ok_local (sexp ctx, sexp self, sexp_sint_t n, sexp vec, sexp k) {
  sexp_sint_t i = sexp_unbox_fixnum(k);
  if ((i < 0) || (i >= (sexp_sint_t)sexp_vector_length(vec)))
    return SEXP_FALSE;
  return sexp_vector_data(vec)[i];
}

sexp witness_ok_unsigned (sexp ctx, sexp self, sexp_sint_t n, sexp bv, sexp k) {
  if ((sexp_uint_t)sexp_unbox_fixnum(k) >= sexp_bytes_length(bv))
    return SEXP_FALSE;
  return sexp_make_fixnum(sexp_bytes_data(bv)[sexp_unbox_fixnum(k)]);
}

sexp witness_ok_range (sexp ctx, sexp self, sexp_sint_t n, sexp str, sexp s, sexp e) {
  sexp_sint_t start = sexp_unbox_fixnum(s), end = sexp_unbox_fixnum(e), count = 0, i;
  if (start < 0 || start > (sexp_sint_t)sexp_string_size(str))
    return SEXP_FALSE;
  if (end < start || end > (sexp_sint_t)sexp_string_size(str))
    return SEXP_FALSE;
  for (i = start; i < end; i++)
    if (sexp_string_data(str)[i] == 'a') count++;
  return sexp_make_fixnum(count);
}

/* C01.j */
sexp witness_bad_view (sexp ctx, sexp self, sexp_sint_t n, sexp bv, sexp s, sexp e) {
  sexp res = sexp_alloc_type(ctx, string, SEXP_STRING);
  sexp_string_bytes(res) = bv;
  sexp_string_offset(res) = sexp_unbox_fixnum(s);
  sexp_string_size(res) = sexp_unbox_fixnum(e) - sexp_unbox_fixnum(s);
  return res;
}

sexp witness_ok_view (sexp ctx, sexp self, sexp_sint_t n, sexp bv, sexp s, sexp e) {
  sexp res;
  if (sexp_unbox_fixnum(s) < 0 || sexp_unbox_fixnum(e) < sexp_unbox_fixnum(s)
      || sexp_unbox_fixnum(e) > (sexp_sint_t)sexp_bytes_length(bv))
    return SEXP_FALSE;
  res = sexp_alloc_type(ctx, string, SEXP_STRING);
  sexp_string_bytes(res) = bv;
  sexp_string_offset(res) = sexp_unbox_fixnum(s);
  sexp_string_size(res) = sexp_unbox_fixnum(e) - sexp_unbox_fixnum(s);
  return res;
}

/* C01.k */
sexp witness_bad_extent (sexp ctx, sexp self, sexp_sint_t n, sexp dst, sexp src, sexp count) {
  if (sexp_unbox_fixnum(count) < 0 || sexp_unbox_fixnum(count) > (sexp_sint_t)sexp_bytes_length(src))
    return SEXP_FALSE;
  memcpy(sexp_bytes_data(dst), sexp_bytes_data(src), sexp_unbox_fixnum(count));
  return dst;
}

sexp witness_ok_extent (sexp ctx, sexp self, sexp_sint_t n, sexp dst, sexp src, sexp start, sexp count) {
  sexp_sint_t s = sexp_unbox_fixnum(start), k = sexp_unbox_fixnum(count);
  if (s < 0 || k < 0 || s + k > (sexp_sint_t)sexp_bytes_length(src) || k > (sexp_sint_t)sexp_bytes_length(dst))
    return SEXP_FALSE;
  memcpy(sexp_bytes_data(dst), sexp_bytes_data(src) + s, k);
  return dst;
}

sexp witness_bad_unsigned_wrap (sexp ctx, sexp self, sexp_sint_t n, sexp bv, sexp k) {
  /* length - 8 wraps around for bytevectors shorter than 8 */
  if (sexp_unbox_fixnum(k) < 0 || sexp_unbox_fixnum(k) > sexp_bytes_length(bv) - 8)
    return SEXP_FALSE;
  return sexp_make_fixnum(sexp_bytes_data(bv)[sexp_unbox_fixnum(k) + 7]);
}
