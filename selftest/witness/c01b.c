/* Positive/negative witnesses for the kind engine (rule C01.b).  Parsed with the
 * same extractor on every run; never compiled into anything.
 * witness_bad_* must be reported, witness_ok_* must be silent. */
#include <chibi/eval.h>

sexp witness_bad_no_guard (sexp ctx, sexp self, sexp_sint_t n, sexp str) {
  return sexp_make_fixnum(sexp_string_size(str));
}

sexp witness_bad_access_before_guard (sexp ctx, sexp self, sexp_sint_t n, sexp p) {
  sexp x = sexp_car(p);
  sexp_assert_type(ctx, sexp_pairp, SEXP_PAIR, p);
  return x;
}

sexp witness_bad_wrong_member (sexp ctx, sexp self, sexp_sint_t n, sexp v) {
  sexp_assert_type(ctx, sexp_vectorp, SEXP_VECTOR, v);
  return sexp_car(v);
}

sexp witness_bad_disjunction (sexp ctx, sexp self, sexp_sint_t n, sexp x) {
  if (! (sexp_stringp(x) || sexp_fixnump(x)))
    return sexp_type_exception(ctx, self, SEXP_STRING, x);
  return sexp_make_fixnum(sexp_string_size(x));
}

sexp witness_bad_list_elements (sexp ctx, sexp self, sexp_sint_t n, sexp ls) {
  sexp_sint_t total = 0;
  for ( ; sexp_pairp(ls); ls = sexp_cdr(ls))
    total += sexp_string_size(sexp_car(ls));
  return sexp_make_fixnum(total);
}

sexp witness_ok_assert (sexp ctx, sexp self, sexp_sint_t n, sexp str) {
  sexp_assert_type(ctx, sexp_stringp, SEXP_STRING, str);
  return sexp_make_fixnum(sexp_string_size(str));
}

sexp witness_ok_chain (sexp ctx, sexp self, sexp_sint_t n, sexp z) {
  double d;
  if (sexp_flonump(z)) d = sexp_flonum_value(z);
  else if (sexp_fixnump(z)) d = sexp_unbox_fixnum(z);
  else if (sexp_bignump(z)) d = sexp_bignum_length(z);
  else return sexp_type_exception(ctx, self, SEXP_NUMBER, z);
  return sexp_make_flonum(ctx, d);
}

sexp witness_ok_switch (sexp ctx, sexp self, sexp_sint_t n, sexp x) {
  if (! sexp_pointerp(x)) return SEXP_FALSE;
  switch (sexp_pointer_tag(x)) {
  case SEXP_PAIR: return sexp_car(x);
  case SEXP_VECTOR: return sexp_make_fixnum(sexp_vector_length(x));
  default: return SEXP_FALSE;
  }
}

sexp witness_ok_port_disjunction (sexp ctx, sexp self, sexp_sint_t n, sexp p) {
  sexp_assert_type(ctx, sexp_portp, SEXP_IPORT, p);
  return sexp_make_boolean(sexp_port_openp(p));
}

sexp witness_ok_list_elements (sexp ctx, sexp self, sexp_sint_t n, sexp ls) {
  sexp_sint_t total = 0;
  for ( ; sexp_pairp(ls); ls = sexp_cdr(ls)) {
    if (! sexp_stringp(sexp_car(ls)))
      return sexp_type_exception(ctx, self, SEXP_STRING, sexp_car(ls));
    total += sexp_string_size(sexp_car(ls));
  }
  return sexp_make_fixnum(total);
}
