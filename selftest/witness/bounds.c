/* positive / negative examples for the rounded-boundary (C04.d, C19.d) and lossy-integer (C19.e) rules;
   parsed with the flags of the compilation database on every run */
#include "chibi/eval.h"
#include <math.h>

sexp witness_bad_strict_max (sexp ctx, double d) {
  if (d > SEXP_MAX_FIXNUM || d < SEXP_MIN_FIXNUM)
    return sexp_make_flonum(ctx, d);
  return SEXP_FALSE;
}

sexp witness_bad_flipped_le (sexp ctx, double d) {
  if (SEXP_MAX_FIXNUM >= d)   /* d <= MAX accepts 2^62 */
    return SEXP_FALSE;
  return sexp_make_flonum(ctx, d);
}

sexp witness_ok_nonstrict_max (sexp ctx, double d) {
  if (d >= SEXP_MAX_FIXNUM || d < SEXP_MIN_FIXNUM)
    return sexp_make_flonum(ctx, d);
  return SEXP_FALSE;
}

sexp witness_ok_small_constant (sexp ctx, double d) {
  if (d > 1000000 || d < -4503599627370496)
    return sexp_make_flonum(ctx, d);
  return SEXP_FALSE;
}

sexp witness_bad_box_double (sexp ctx, double acc, int sign) {
  if (fabs(acc) >= SEXP_MAX_FIXNUM)
    return sexp_make_flonum(ctx, sign * acc);
  return sexp_make_fixnum(sign * acc);
}

sexp witness_bad_box_double_one_sided (sexp ctx, double acc) {
  if (acc < 9007199254740992.0)
    return sexp_make_fixnum(acc);
  return SEXP_FALSE;
}

sexp witness_ok_box_double_bounded (sexp ctx, double acc, int sign) {
  if (fabs(acc) <= 9007199254740992.0)
    return sexp_make_fixnum(sign * acc);
  return sexp_make_flonum(ctx, sign * acc);
}

sexp witness_ok_box_integer (sexp ctx, sexp_uint_t acc, int sign) {
  return sexp_make_fixnum(sign * (sexp_sint_t)acc);
}

sexp witness_bad_hoisted_constant (sexp ctx, double d) {
  const double fix_max = SEXP_MAX_FIXNUM;
  if (d > fix_max)
    return sexp_make_flonum(ctx, d);
  return SEXP_FALSE;
}

sexp witness_ok_hoisted_constant (sexp ctx, double d) {
  const double fix_max = SEXP_MAX_FIXNUM, fix_min = SEXP_MIN_FIXNUM;
  if (!(d < fix_max) || (d < fix_min))
    return sexp_make_flonum(ctx, d);
  return SEXP_FALSE;
}
