#!/usr/bin/env python3
"""Regenerates MANIFEST.json from the table below (kept as code so that the
claimed / not-applicable split and the texts stay in one place)."""
import json, subprocess, os

ASSUME = ("Decides the named structural clauses on the macro-expanded, type-resolved AST and clang CFG of every "
          "unit of /repo/_build/compile_commands.json (generated FFI stubs re-generated from the working tree's "
          ".stub files), in the parsed configuration(s); calls through function pointers may reach any "
          "address-taken function of a compatible type; no setjmp; no writes through type-punned aliases other "
          "than the sexp.h macros. Trusted base: clang 14 front end/CFG builder, cfacts.cc, the python rules. "
          "The behaviour as a whole is NOT decided - see 'Not decided' per property in DESIGN.md section 3.")

CLAIMED = {
 "C02": ("R1 root-link pairing: on every CFG path of every function that links a sexp_gc_var_t node into "
         "ctx->saves, the link stack is empty at each return, a node is unlinked only where linked and never linked twice. "
         "R5: type rows trace exactly the reference fields, up to the live-slot counter. R3a/R3b: a fresh object is not kept in an unrooted "
         "local (incl. a reassigned parameter, a rooted local before its registration, a local handed to a parameter its callee reads after "
         "allocating) across a must-allocate call and used afterwards. R4: the VM publishes its stack top before every call that may allocate. "
         "R6: object words in bytecode are on the literal list. R7: no collection point sees a traced slot holding a raw C pointer. R8: sexp_release_object unlinks one registration per call. "
         "R9: a C pointer into the data of a fresh object known through one local is not used after that local was overwritten and a may-allocate call followed. "
         "Sound all-paths decisions of these clauses (necessary conditions: a dangling, dropped or missing root is "
         "dereferenced / lost by the next collection), not of schedule-independence as such.",
         "typestate (link-stack) dataflow over the clang CFG, path-sensitive for stable correlated predicates; "
         "table/layout agreement; call-graph may-GC reachability", "3 C02"),
}

NA = {
 "C06": "order of wind thunks / handler contexts over arbitrary escape and re-entry histories is behaviour of Scheme code (init-7.scm) over a stack-copying primitive; no structural necessary condition beyond trivia is visible in the source shape",
 "C12": "contents/lengths of strings under operation histories depend on the byte widths of all preceding characters (runtime values); UTF-8 table inversion is evaluation over 1.1M values, not analysis",
 "C14": "import-set algebra is list manipulation in Scheme (meta-7.scm) over runtime module tables; visibility of names is a value property; the one C-side clause (immutable bindings) is excluded by the property text",
 "C17": "two's-complement exactness on all integers is a numerical result over unbounded operands; the sign/length case splits are data, not shape",
 "C18": "sortedness/permutation and ADT conformance of Scheme container libraries are functional correctness over histories; nothing structural to anchor",
 "C20": "agreement of a Scheme NFA simulation with SRE semantics is language equivalence; out of reach of source-shape rules",
}
CLAIMED["C10"] = ("(a) every allocation site's size expression (linear form over constant-evaluated sizes) equals the extent "
    "the sweeper recomputes from the type row and the stored length field; type rows agree with the record layout; "
    "(b) size-determining length fields are written only on an object allocated earlier in the same function; (c) heap segment sizes are "
    "multiples of the allocation granule; (d) the marker traces exactly the reference fields and, for variable-length types, the live slots "
    "(stack: top) - over-tracing retains garbage; (e) every walk over the objects of a heap segment runs while p < h->data + h->size; (f, rule C10.e) a store through the result of an allocator that can return the shared out-of-memory exception object is preceded by a test excluding it (allocator results in every unit, constructor results in vm.c). "
    "Decides the 'exact tiling' precondition (allocator and sweeper agree on every object's extent), not the sweep/coalescing "
    "arithmetic or heap-growth bounds.",
    "table/layout/site agreement (constant-evaluated type table vs ASTRecordLayout vs linear forms of allocation sizes); who-may-write with dominance",
    "3 C10")
CLAIMED["C16"] = ("(a) typestate over sexp_gc / sexp_destroy_context: mark*, weak reset, finalize, sweep in that order on every path; "
    "(b) Ephemeron type row: key is the single weak slot, value the one extra slot, neither strongly traced, and a weak-column reader can reach the marker; "
    "(c) every close/fclose of a fileno's descriptor or port stream in any unit (incl. generated stubs) is dominated by the owner's openp test and the store openp=0; every refcount decrement observes its zero transition, counts of filenos not allocated on the spot are only incremented / decremented, and the function that stores a fileno into a port increments its count; "
    "(e) a non-owning cpointer wrapping memory reached through another cpointer's C value names that object as parent (generated struct getters, on the re-generated stubs); (f) no loop over a cursor is re-entered with the cursor exhausted (the second finalization pass). "
    "(d) every reference field of every type is traced, so an owner keeps the descriptor object it owns alive; (g) the collect-and-retry loops on descriptor exhaustion take the retry on the first EMFILE and collect before opening again (constant propagation over the retry counter). "
    "Necessary conditions of 'exactly once / only when unreachable'; reachability timing itself is not decided.",
    "typestate over the CFG (phase automaton), table/layout agreement, dominance (guard + flag store dominate release), call-graph reachability, constant propagation over a loop counter",
    "3 C16")

CLAIMED["C01"] = ("Structural clauses: (b) kind-set dataflow proves every typed access on a C primitive's parameter (or on a value loaded "
    "from a user-controlled container) is dominated by a tag guard admitting only the accessed union member - the VM does not type-check "
    "foreign-call arguments; (i) index guards: every subscript / pointer addition into the data of a string, bytevector or vector operand whose "
    "index carries the unboxed value of a program-supplied operand is preceded on every path by comparisons implying 0 <= index < length of that "
    "same object (VM opcodes and primitives; unguarded helpers become obligations of their call sites); (j) writers of a string's (bytes, offset, "
    "length) keep the view inside the bytes object; (f) every direct C recursion cycle reachable from reader/writer/equal?/eval goes through a "
    "verified depth-parameter bounder (guard direction and per-call-edge step checked) or a listed by-construction bounder; (a) dispatch totality "
    "of the VM switch; (c1) data-dependent VM stack copies dominated by a capacity check; (c2) the failure edge of every stack-growth attempt goes to the exit sequence of sexp_apply before any dispatch; (p) integer divisions by the unboxed value of an operand are dominated by a non-zero test (interprocedural: zero-unsafe parameters become obligations of call sites); (q) no immediate constant is passed to a parameter the callee dereferences untested; (r) type-table indexes carrying a program value are range-checked; (s) results that sexp_complex_normalize may have turned into reals are not passed to parameters read as complex numbers; (c3) stack growth requests cover the compared quantity, (c4) bounded pushback; (t) an application that keeps an opcode object as its head has at most num_args+1 operands unless generate_opcode_app folds the opcode's class; (u) the values pushed by the instructions a generating function of vm.c emits are covered by its depth increments; (u) the values pushed by the instructions a generating function emits are covered by its depth increments; (d) slot accessor rows designate sexp fields; "
    "(g) saved context state restored on every path; (h) growable reader buffers advance at most their guard's budget. All-paths decisions of these "
    "clauses (necessary conditions of memory safety / error containment); pointer-walking loops, memcpy lengths, context-owned tables, the reader's "
    "label table, stack-growth sufficiency and out-of-memory paths are not decided.",
    "kind-set refinement dataflow over the CFG with boolean condition decomposition (guard dominates access); forward must-dataflow of comparison atoms "
    "in linear normal form with kill on redefinition / store (index < length of the same object), interprocedural access and non-negativity summaries; "
    "call-graph SCCs with depth-bound idiom verification; table/layout agreement; save/restore typestate",
    "3 C01")

CLAIMED["C19"] = ("(a) every generated numeric accessor of (scheme bytevector) / (srfi 160 prims) that forms data(B)+off is dominated by "
    "checks implying 0 <= off and off + width <= length(B) (width taken from the helper's memcpy size / element type; facts from the "
    "branch conditions, as linear forms); (b) the JSON reader and writer recursion cycles pass through a verified depth-parameter bounder; (c) growable buffers of json.c advance at most their guard's budget; "
    "(d) doubles compared with SEXP_MAX_FIXNUM-like constants use the operator that survives the constant's rounding; (e) no fixnum is boxed from a double accumulator without a bound <= 2^53 (integers must not lose low bits on the way in); (f) the escape tables of the JSON string writer and reader invert each other and the quote / backslash are escaped; (g) every accessor stub type-checks its vector argument before reading it; (h) a w-byte load at a bounded index in the hand-written decoder helpers is dominated by a bound with the slack of the whole unit; (i) no assignment to an 8/16-bit integer variable in these units adds a constant beyond the variable's range. "
    "Decides 'total on hostile offsets / nesting' for these codecs; encode/decode inverses and the Scheme-level codecs are not decided.",
    "relational guard-dominates-access over the CFG (linear forms of branch conditions vs. interprocedural width summaries of accessor helpers); call-graph SCC depth-bound verification",
    "3 C19")

CLAIMED["C15"] = ("(a) kind-set dataflow over sexp_equalp_bound and hash_one: the heap tags equal? compares through a semantic comparator "
    "are disjoint from the tags whose raw trailing bytes hash_one hashes (otherwise equal? values hash differently); (b) both recursions "
    "pass through a verified depth bound (termination on deep/cyclic data); (c) hash_one folds a machine word into the hash only for "
    "immediates; (d) the C hash-table primitives update the size slot exactly where they link/unlink an entry; (e) sexp_equalp_bound writes "
    "every recursive result back into its work budget; (f) hash_one and sexp_equalp_bound read the same type-table columns to decide which slots take part; (g) a bucket-chain walk of lib/srfi/69/hash.c that advances through a field of the current cell is not reached by a store to that field of its cursor. Necessary conditions of hash/equal? coherence; hash-table "
    "histories are not decided.",
    "sibling agreement by kind-set dataflow probes (tags reaching the semantic-compare returns vs. tags reaching the raw-byte hashing statements); call-graph SCC depth-bound verification",
    "3 C15")

CLAIMED["C03"] = ("Agreement clauses between the compiler's cooperating parts: (a) every AST walker (free-vars, simplify, usedp, generator) visits "
    "all sub-AST fields of each node type it dispatches on; (b) for every opcodes[] row the net change of `top` on the non-raising paths of "
    "its VM case equals what the row promises the code generator (-(n) for void rows, 1-n otherwise); (c) every constant-opcode emission is "
    "followed by exactly the operand words its VM case reads. Necessary conditions of correct compiled evaluation; R7RS semantic equivalence "
    "as such is not decided.",
    "sibling agreement: field-read sets per walker closure; path enumeration of the VM dispatch cases (top delta / operand reads) vs constant-evaluated opcode table vs emit call sequences",
    "3 C03")
CLAIMED["C09"] = ("Structural clauses on simplify.c: (a) simplify/usedp walker agreement; (b) kind-set dataflow: the literal replacing a folded "
    "application is built only where the fold result cannot be an exception, and the fold runs through sexp_apply_no_err_handler, which clears every handler source it saves before applying (b2); "
    "(c) let-constant propagation is dominated by the not-in-set-variables test; (d) taint: no value unwrapped from a literal node and no "
    "result of unchecked fixnum arithmetic reaches an AST slot or the returned AST; (e) set-variable membership tests pair a name with the sv list of the lambda that binds it; (f) the constant fold of `if` compares the simplified test itself with #f only where it cannot be a literal node (a Lit node wraps the value and is never #f). Necessary conditions of 'simplification preserves meaning'; "
    "result equality across builds and the 128-bit emulation are not decided.",
    "walker field-set agreement; kind-set dataflow probe at the literal construction; edge-dominance of the guard over the substitution push",
    "3 C09")

CLAIMED["C07"] = ("One clause: every identifier that an explicit-renaming macro shipped in the R7RS-small closure (lib/init-7.scm and the files "
    "included by the libraries (scheme base) ... (scheme r5rs) import) inserts into its expansion - a symbol in a quasiquote template outside "
    "unquote, or a quoted symbol handed to list/cons/append - goes through the macro's renamer; a bare inserted identifier captures or is "
    "captured by a user binding of that name. Decides this necessary condition of hygiene for the shipped derived forms, not the expander's "
    "identifier resolution.",
    "syntax-tree lint over Scheme sources (own s-expression reader; library import/include graph; template walk)",
    "3 C07")

CLAIMED["C08"] = ("Two clauses. (b) every expression that assembles a code point from masked UTF-8 bytes uses the shifts 6(n-1)..6,0, so the decoders of the reader, string-ref, read-char and utf8-ref agree on every width class. (a) the string-escape letters and character-name tables of the native writer, the native reader, the SRFI-38 writer "
    "and the SRFI-38 reader agree (reader(writer(c)) = c for every escaped character; both readers map the same letters to the same characters; "
    "all name tables hold the same name/code pairs). A necessary condition of round-tripping and of the two reader/writer pairs accepting the "
    "same texts; float formatting, symbol quoting and labels are not decided.",
    "sibling-table agreement: case arms / constant initializers extracted from the C AST vs. tables and case clauses read from lib/srfi/38.scm",
    "3 C08")

CLAIMED["C05"] = ("Compiler half only: (a) dataflow of the abstract tail flag through every generate_* function - each sub-expression is generated "
    "with the flag its role requires (tests/operands/non-last statements 0, branches/last statement the entry flag, lambda body 1), and every "
    "generator function returns with the flag at its entry value or 0; (b) SEXP_OP_TAIL_CALL is emitted only under a test of the saved entry "
    "flag; (c) the VM's TAIL_CALL/APPLY1 cases re-base top on the caller's frame before make_call. Necessary conditions of constant-space tail "
    "calls; macro-defined derived forms and the stack-growth/out-of-stack half are not decided.",
    "forward dataflow over the CFG with a small powerset lattice {ENTRY,0,1,clobbered}; role table from AST accessors; dominance in the VM case",
    "3 C05")

CLAIMED["C13"] = ("Inventory clause: every variable with static storage in the parsed units is either never written (no store, increment, or "
    "address handed to a parameter through which a callee writes) or listed in an audited table with its allowed writer functions and the "
    "reason it does not couple independent contexts; a new writable global or a new writer is reported. A necessary condition of context "
    "isolation / race freedom on interpreter state. A second audited table covers every call of a libc interface with hidden process-wide "
    "state that later calls observe (rand/random, strtok, localtime, setenv, setlocale ...). Heap and symbol-table disjointness at run time are not decided.",
    "who-may-write inventory over all units: stores and address escapes of globals resolved through one level of callee write summaries and const-ness of external parameters",
    "3 C13")

CLAIMED["C11"] = ("Atomicity by construction: (a) no path in the whole-program call graph from the lock/unlock/signal/start/join/terminate/"
    "sleep/scheduler primitives reaches a VM entry point or an unresolved indirect call once the collector's finalizer edge is cut - pre-emption "
    "happens only in the VM loop, so these primitives are atomic; (b) the cut is justified on every run: no installed finalizer reaches the VM "
    "or the allocator except the port finalizer's flush, which is confined to the closed-port arms (openp cleared before the flush, tested "
    "before the custom/string-port arms); (c) the Scheme code of (srfi 18) never writes the lock/owner slots itself; (d) every primitive that "
    "queues the current thread as paused stores its event and waitp fields on every path first; (e) FRONT and BACK of the run queue are stored together; (f) a function that writes a thread's wake-up deadline writes it on every path; (g) every store that ends a thread's wait (waitp = 0) defines its timeoutp flag in the same basic block (the Scheme retry loops ask thread-timeout? right after the resume). Necessary conditions of mutual exclusion / "
    "no lost wake-up; fairness and schedule independence are not decided.",
    "whole-program call-graph reachability with function-pointer flow (per struct field / parameter); dominance side conditions justifying the cut edge",
    "3 C11")

CLAIMED["C04"] = ("Five clauses. No fixnum unboxing under numeric tests that still admit other representations; the radix is threaded through the number reader. Rounded boundaries: a double compared with an integer constant binary64 cannot represent (SEXP_MAX_FIXNUM) uses the operator that stays correct under the rounding. Numbers are immutable: no function Scheme code reaches with its own values modifies (a part of) an operand in place - "
    "every store to a bignum sign / flonum value is traced to the origin of the object (fresh, operand, or handed back unchanged by a callee) along "
    "feasible paths and through destination-taking helpers to the entry points. Canonical-form must-pass-through. Raw producers are inferred (functions that allocate a bignum themselves, "
    "closed under 'may return such a value unsanitized' over the representation-level helpers); may-taint dataflow through each generic "
    "arithmetic entry point shows that no return value is a raw bignum / raw ratio that skipped sexp_bignum_normalize / sexp_ratio_normalize. "
    "A necessary condition of 'an integer that fits a fixnum is a fixnum, numerically equal exact results are eqv?'; digit-level "
    "correctness of the arithmetic, parsing and printing are not decided.",
    "taint / must-pass-through dataflow over the CFG with inferred producer set; origin (ownership) analysis of in-place stores with passthrough and mutator summaries over the call graph",
    "3 C04")

# properties planned in DESIGN.md but whose checks are not built yet are listed
# as not applicable *for now* with that reason, so the manifest never over-claims
PENDING = {}
for _l in open(os.path.join(os.path.dirname(os.path.abspath(__file__)), "properties.jsonl")):
    _p = json.loads(_l)["id"]
    if _p not in CLAIMED and _p not in NA:
        PENDING[_p] = "not claimed yet: the static clauses planned for it in DESIGN.md section 3 are not built/armed at this commit"

def main():
    fixes = subprocess.run(["git", "-C", "/repo", "log", "--format=%h %s", "7028faf..HEAD"],
                           stdout=subprocess.PIPE).stdout.decode().strip().splitlines()
    checks = []
    for pid in sorted(CLAIMED):
        text, tech, ref = CLAIMED[pid]
        checks.append({
            "property_id": pid,
            "quick_cmd": "./check %s --tier quick" % pid,
            "thorough_cmd": "./check %s --tier thorough" % pid,
            "evidence_file": "/verif/evidence/%s.json" % pid,
            "replay_cmd_template": "./check %s --replay {path}" % pid,
            "engine": "cfacts+rules",
            "level_claimed": {"category": "other", "text": text, "design_ref": "DESIGN.md section " + ref},
            "level_note": ASSUME,
            "technique": "static analysis: " + tech,
        })
    na = [{"property_id": k, "reason": v} for k, v in sorted({**NA, **PENDING}.items())]
    m = {
        "version": 1,
        "setup_cmd": "./setup.sh",
        "hooks": {
            "guard": "CHIBI_VERIF_STATIC",
            "enable": "none - the static checks read the unmodified sources; no guarded source change exists",
            "baseline_off_cmd": "cmake --build /repo/_build -j16 && ctest --test-dir /repo/_build -j8 --timeout 900",
            "source_commits": [f for f in fixes],
            "add_only": True,
        },
        "engines": [
            {"name": "cfacts", "path": "engine/cfacts/cfacts.cc", "serves_properties": sorted(CLAIMED),
             "kind_free_text": "libTooling fact extractor: macro-expanded typed AST + clang CFG + record layouts + constant-evaluated tables, per unit of the compilation database"},
            {"name": "rules", "path": "engine/py + rules/", "serves_properties": sorted(CLAIMED),
             "kind_free_text": "python rule library: typestate/dataflow over exported CFGs, call graph, table/layout comparers, s-expression lints"},
        ],
        "checks": checks,
        "not_applicable": na,
        "notes": "Static analysis only. Exit codes: 0 pass (KNOWN-FINDING lines allowed), 1 VIOLATION, 2 analysis broken (vanished anchor / instance floor). See DESIGN.md.",
    }
    with open(os.path.join(os.path.dirname(os.path.abspath(__file__)), "MANIFEST.json"), "w") as f:
        json.dump(m, f, indent=1)
        f.write("\n")

if __name__ == "__main__":
    main()
