#!/bin/sh
# MANIFEST.setup_cmd: build the fact extractor (offline) and make sure /repo/_build
# (compilation database + the repository's own stub generator) exists.
set -e
cd "$(dirname "$0")"
mkdir -p out/bin evidence
if [ ! -x out/bin/cfacts ] || [ engine/cfacts/cfacts.cc -nt out/bin/cfacts ]; then
  clang++ $(llvm-config-14 --cxxflags) -fno-rtti -O1 engine/cfacts/cfacts.cc -o out/bin/cfacts \
    /usr/lib/llvm-14/lib/libclang-cpp.so.14 /usr/lib/llvm-14/lib/libLLVM-14.so
fi
REPO=${VERIF_REPO:-/repo}
if [ ! -f "$REPO/_build/compile_commands.json" ] || [ ! -x "$REPO/_build/chibi-scheme" ]; then
  cmake -G Ninja -B "$REPO/_build" -S "$REPO" -DCMAKE_EXPORT_COMPILE_COMMANDS=ON -DCMAKE_BUILD_TYPE=RelWithDebInfo
  cmake --build "$REPO/_build" -j16
fi
echo "setup ok"
