#!/bin/bash
# confirm_seed.sh <worktree> <n> : independently confirm a seeded change in its scratch worktree:
# patch applies to a clean checkout, builds, the existing suite passes (weak-test is flaky in the
# baseline), the demonstration fails with the change and passes without it.
WT=$1; N=$2; S=$WT/SEED/$N
cd "$WT" || exit 2
git checkout -q -- . ; git status --short | grep -v '^??' && { echo "worktree not clean"; exit 2; }
git apply --check "$S/patch.diff" || { echo "PATCH DOES NOT APPLY"; exit 1; }
demo=$(ls $S/demo.sh 2>/dev/null || ls $S/demo.* | head -1)
rundemo() {
  case "$demo" in
    *.scm) LD_LIBRARY_PATH=_build timeout 300 ./_build/chibi-scheme -I _build/lib -I lib "$demo" > /tmp/seed_demo_out.txt 2>&1 ;;
    *.sh)  (cd "$WT" && timeout 600 bash "$demo") > /tmp/seed_demo_out.txt 2>&1 ;;
    *.c)   echo "C demo: run by hand" > /tmp/seed_demo_out.txt; return 99 ;;
  esac
}
cmake --build _build -j16 > /dev/null 2>&1
rundemo; base=$?
echo "demo on unchanged tree: exit=$base  $(tail -2 /tmp/seed_demo_out.txt | tr '\n' ' ' | cut -c1-160)"
git apply "$S/patch.diff"
cmake --build _build -j16 > /tmp/seed_build.txt 2>&1 || { echo "BUILD FAILS"; tail -5 /tmp/seed_build.txt; git checkout -q -- .; exit 1; }
rundemo; with=$?
echo "demo with change:       exit=$with  $(tail -2 /tmp/seed_demo_out.txt | tr '\n' ' ' | cut -c1-160)"
ctest --test-dir _build -j8 --timeout 900 2>&1 | grep -E "tests passed|\*\*\*" | tr '\n' ' '; echo
git checkout -q -- .
cmake --build _build -j16 > /dev/null 2>&1
echo "restored."
