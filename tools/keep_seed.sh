#!/bin/bash
# keep_seed.sh <worktree> <n> <seed-id> "<checks run and outcome>" : store a confirmed seeded change under /verif/seeded/<seed-id>/
WT=$1; N=$2; ID=$3; RAN=$4
D=/verif/seeded/$ID; mkdir -p $D
cp $WT/SEED/$N/patch.diff $D/patch.diff
for f in $WT/SEED/$N/demo.*; do cp $f $D/; done
python3 - "$WT/SEED/$N/meta.json" "$D/meta.json" "$RAN" <<'PY'
import json,sys
try: m=json.load(open(sys.argv[1]))
except Exception as e: m={"note":"agent meta.json unreadable: %s"%e}
out={"property":m.get("property"),"summary":m.get("summary"),"needs_to_manifest":m.get("needs_to_manifest"),
     "files_changed":m.get("files_changed"),"author_ran":m.get("ran"),
     "confirmed_by_me":"tools/confirm_seed.sh in the author's scratch worktree: patch applies to a clean checkout, builds, existing suite passes (lib_chibi_weak-test is flaky in the baseline), demonstration passes on the unchanged tree and fails with the change",
     "checks":sys.argv[3]}
json.dump(out,open(sys.argv[2],'w'),indent=1)
PY
echo kept $D
