#!/bin/bash
# replay_seeds.sh : apply every kept seeded change to /repo in turn (git apply / git checkout -- .), run the quick
# check of its property (plus the properties that share a clause with it) and print which checks report a violation.
# Never commits anything; refuses to run on a dirty /repo.
R=${REPLAY_REPO:-/repo}; export VERIF_REPO=$R
cd $R || exit 2
git diff --quiet || { echo "/repo has uncommitted changes"; exit 2; }
extra() { case "$1" in C03) echo "C05 C09";; C16) echo "C02";; C10) echo "C02";; C01) echo "C15 C02";; C05) echo "C01";; *) echo "";; esac; }
for d in /verif/seeded/*/; do
  id=$(basename "$d"); prop=${id%%-*}
  if ! git apply "$d/patch.diff" 2>/dev/null; then echo "$id: PATCH DOES NOT APPLY"; continue; fi
  hit=""
  for c in $prop $(extra $prop); do
    (cd /verif && ./check $c --tier quick > /tmp/replay_seed.$$.out 2>&1); code=$?
    [ $code -eq 1 ] && hit="$hit $c"
    [ $code -eq 2 ] && hit="$hit $c(broken)"
  done
  git checkout -q -- .
  echo "$id: ${hit:- missed}"
done
