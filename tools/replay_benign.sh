#!/bin/bash
# replay_benign.sh <dir with N/patch.diff ...> : apply each behaviour-preserving patch to /repo, run every quick
# check, print any check that does not exit 0 (a false alarm or a brittle anchor), undo.
R=${REPLAY_REPO:-/repo}; export VERIF_REPO=$R
cd $R || exit 2
git diff --quiet || { echo "/repo has uncommitted changes"; exit 2; }
for p in "$@"; do
  if ! git apply "$p" 2>/dev/null; then echo "$p: does not apply to the current tree"; continue; fi
  bad=""
  for c in C01 C02 C03 C04 C05 C07 C08 C09 C10 C11 C13 C15 C16 C19; do
    (cd /verif && ./check $c --tier quick > /tmp/replay_benign.$c.out 2>&1); code=$?
    if [ $code -ne 0 ]; then bad="$bad $c(exit $code)"; cp /tmp/replay_benign.$c.out /tmp/replay_benign.$(basename $(dirname $p)).$c.keep; fi
  done
  git checkout -q -- .
  echo "$p: ${bad:- silent}"
done
