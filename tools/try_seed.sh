#!/bin/bash
# try_seed.sh <patch.diff> <Cxx> [Cyy...] : apply a seeded change to /repo, run the quick checks, undo it.
P=$1; shift
cd /repo || exit 2
git diff --quiet || { echo "/repo has uncommitted changes"; exit 2; }
git apply "$P" || { echo "patch does not apply to /repo"; exit 2; }
for c in "$@"; do
  out=$(cd /verif && ./check $c --tier quick 2>&1); code=$?
  echo "== $c exit=$code"; echo "$out" | grep -A1 "^VIOLATION" | grep "^    " | cut -c1-260 | head -4
  echo "$out" | grep "^ANALYSIS-BROKEN" | cut -c1-200 | head -2
done
git checkout -q -- .
